package main

import (
	"bytes"
	"compress/flate"
	"crypto"
	"crypto/rsa"
	"crypto/x509"
	"encoding/base64"
	"encoding/xml"
	"errors"
	"fmt"
	"html"
	"io"
	"log"
	"math/rand"
	"net/http"
	"net/http/httptest"
	"net/url"
	"os"
	"regexp"
	"strings"
	"time"

	"github.com/crewjam/saml"

	"verifharness/internal/emit"
	"verifharness/internal/fix"
)

// ---------- mirror of the Coq model's input records ----------

type mCfg struct {
	SSOURL, Entity string
	Delay, Skew    time.Duration
	Method         string
	Key            int64  // identifier of idp.Key's key pair
	Signer         *int64 // identifier of idp.Signer's key pair (4 = the ECDSA P-256 pair)
	SignerKind     string // how idp.Signer is supplied: "" / "rsa" (*rsa.PrivateKey), "opaque-rsa" (a wrapper type, HSM style), "ecdsa"
}

// opaqueSigner hides the concrete key type behind crypto.Signer, the way HSM / KMS clients do.
type opaqueSigner struct{ inner crypto.Signer }

func (o opaqueSigner) Public() crypto.PublicKey { return o.inner.Public() }
func (o opaqueSigner) Sign(r io.Reader, digest []byte, opts crypto.SignerOpts) ([]byte, error) {
	return o.inner.Sign(r, digest, opts)
}

const ecSignerID = int64(4)

func certOfAny(id int64) *x509.Certificate {
	if id == ecSignerID {
		return cachedCert("ec_256")
	}
	return certOf(id)
}

type mEndpoint struct {
	Binding, Location string
	Index             int
	Default           *bool
	RL                *string // ResponseLocation attribute (optional; the IdP must never use it)
}
type mKeyDesc struct {
	Use   string
	Certs []string
}
type mReqAttr struct {
	Friendly, Name, Format string
	Values                 []string // AttributeValue children of the metadata's RequestedAttribute
}
type mAttrSvc struct {
	Default   *bool
	Requested []mReqAttr
}
type mSPSSO struct {
	ACS  []mEndpoint
	KDs  []mKeyDesc
	Svcs []mAttrSvc
}
type mMeta struct {
	Entity string
	Descs  []mSPSSO
	ViaXML bool // the registry obtains this metadata by parsing an XML document (xml.Unmarshal), not as Go structs
}

var knownBindings = map[string]bool{saml.HTTPPostBinding: true, saml.HTTPRedirectBinding: true, saml.HTTPArtifactBinding: true,
	saml.SOAPBinding: true, saml.SOAPBindingV1: true}

func httpURL(s string) bool {
	u, err := url.Parse(s)
	return err == nil && (u.Scheme == "http" || u.Scheme == "https")
}

// xmlParsable: the document the harness would write parses (every endpoint with a known binding has
// http(s) Location and ResponseLocation), and the metadata has nothing the XML writer below leaves out.
func (m *mMeta) xmlParsable() bool {
	for _, d := range m.Descs {
		if len(d.KDs) > 0 || len(d.Svcs) > 0 {
			return false
		}
		for _, e := range d.ACS {
			if knownBindings[e.Binding] && (!httpURL(e.Location) || (e.RL != nil && !httpURL(*e.RL))) {
				return false
			}
		}
	}
	return true
}

// expectedACS is the harness's own reading of what the registry holds: for parsed documents the
// Location of endpoints with unknown bindings is blank; ResponseLocation never matters.
func (m *mMeta) expectedACS() [][]mEndpoint {
	var out [][]mEndpoint
	for _, d := range m.Descs {
		var l []mEndpoint
		for _, e := range d.ACS {
			if m.ViaXML && !knownBindings[e.Binding] {
				e.Location = ""
			}
			l = append(l, e)
		}
		out = append(out, l)
	}
	return out
}

// xmlText writes the metadata the way a metadata file carries it.
func (m *mMeta) xmlText() string {
	var sb strings.Builder
	sb.WriteString(`<EntityDescriptor xmlns="urn:oasis:names:tc:SAML:2.0:metadata"` + xmlAttr("entityID", m.Entity) + ">")
	for di, d := range m.Descs {
		sb.WriteString(fmt.Sprintf(`<SPSSODescriptor ID="desc%d" protocolSupportEnumeration="urn:oasis:names:tc:SAML:2.0:protocol">`, di))
		for _, e := range d.ACS {
			sb.WriteString("<AssertionConsumerService" + xmlAttr("Binding", e.Binding) + xmlAttr("Location", e.Location))
			if e.RL != nil {
				sb.WriteString(xmlAttr("ResponseLocation", *e.RL))
			}
			sb.WriteString(xmlAttr("index", fmt.Sprint(e.Index)))
			if e.Default != nil {
				sb.WriteString(xmlAttr("isDefault", fmt.Sprint(*e.Default)))
			}
			sb.WriteString("/>")
		}
		sb.WriteString("</SPSSODescriptor>")
	}
	sb.WriteString("</EntityDescriptor>")
	return sb.String()
}

// build is what the ServiceProviderProvider returns for this metadata.
func (m *mMeta) build() (*saml.EntityDescriptor, error) {
	if !m.ViaXML {
		return m.toSAML(), nil
	}
	ed := &saml.EntityDescriptor{}
	if err := xml.Unmarshal([]byte(m.xmlText()), ed); err != nil {
		return nil, err
	}
	return ed, nil
}

// registry entry: metadata, os.ErrNotExist, or another error
type mRegEntry struct {
	ID   string
	Kind string // "found" | "notexist" | "error" | "wrapped-notexist"
	MD   *mMeta
}

type mWire struct {
	ID, Version       string
	Issue             *string
	Destination       string
	Issuer            *string
	ACSURL, ACSIndex  string
	explicitEmptyAttr bool // write Version=""/Destination="" … explicitly instead of omitting them
}

func optBool(b *bool) string {
	if b == nil {
		return "None"
	}
	return "(Some " + emit.Bool(*b) + ")"
}

func emitDur(d time.Duration) string { return emit.Z(int64(d)) }

// instants as Z nanoseconds since the Unix epoch (zero time does not fit int64)
func emitTime(t time.Time) string {
	return fmt.Sprintf("(%s * 1000000000 + %d)", emit.Z(t.Unix()), t.Nanosecond())
}

func (c mCfg) term() string {
	return fmt.Sprintf("{| sso_url := %s; idp_entity := %s; max_issue_delay := %s; max_clock_skew := %s; sig_method := %s; idp_key := %s; idp_signer := %s; idp_signer_ecdsa := %s |}",
		emit.Str(c.SSOURL), emit.Str(c.Entity), emitDur(c.Delay), emitDur(c.Skew), emit.Str(c.Method), emit.Z(c.Key), emit.OptZ(c.Signer),
		emit.Bool(c.Signer != nil && *c.Signer == ecSignerID))
}

func (e mEndpoint) term(viaXML bool) string {
	if viaXML { // the model applies the metadata parser's endpoint rule itself
		return fmt.Sprintf("(parse_endpoint {| re_binding := %s; re_location := %s; re_response_location := %s; re_index := %s; re_default := %s |})",
			emit.Str(e.Binding), emit.Str(e.Location), emit.OptStr(e.RL), emit.Z(int64(e.Index)), optBool(e.Default))
	}
	return fmt.Sprintf("{| ep_binding := %s; ep_location := %s; ep_index := %s; ep_default := %s |}",
		emit.Str(e.Binding), emit.Str(e.Location), emit.Z(int64(e.Index)), optBool(e.Default))
}

// stripWS removes what Go's regexp class \s matches: [\t\n\f\r ].
func stripWS(s string) string {
	return strings.Map(func(r rune) rune {
		switch r {
		case '\t', '\n', '\f', '\r', ' ':
			return -1
		}
		return r
	}, s)
}

// certificate strings go into the Gallina terms verbatim (white space and all):
// the model strips the white space itself and then looks the result up in the
// certificate table.
func (k mKeyDesc) term() string {
	return fmt.Sprintf("{| kd_use := %s; kd_certs := %s |}", emit.Str(k.Use), emit.StrList(k.Certs))
}
func (r mReqAttr) term() string {
	return fmt.Sprintf("{| ra_friendly := %s; ra_name := %s; ra_format := %s; ra_values := %s |}", emit.Str(r.Friendly), emit.Str(r.Name), emit.Str(r.Format), emit.StrList(r.Values))
}
func (a mAttrSvc) term() string {
	items := []string{}
	for _, r := range a.Requested {
		items = append(items, r.term())
	}
	return fmt.Sprintf("{| as_default := %s; as_requested := %s |}", optBool(a.Default), emit.List(items))
}
func (d mSPSSO) term(viaXML bool) string {
	var a, k, s []string
	for _, e := range d.ACS {
		a = append(a, e.term(viaXML))
	}
	for _, e := range d.KDs {
		k = append(k, e.term())
	}
	for _, e := range d.Svcs {
		s = append(s, e.term())
	}
	return fmt.Sprintf("{| acs := %s; kds := %s; attr_services := %s |}", emit.List(a), emit.List(k), emit.List(s))
}
func (m mMeta) term() string {
	var d []string
	for _, e := range m.Descs {
		d = append(d, e.term(m.ViaXML))
	}
	return fmt.Sprintf("{| md_entity := %s; descriptors := %s |}", emit.Str(m.Entity), emit.List(d))
}
func regTerm(reg []mRegEntry) string {
	var items []string
	for _, e := range reg {
		v := "NotExist"
		switch e.Kind {
		case "found":
			v = "Found " + e.MD.term()
		case "error", "wrapped-notexist":
			v = "LookupErr"
		}
		items = append(items, fmt.Sprintf("(%s, %s)", emit.Str(e.ID), v))
	}
	return emit.List(items)
}
func (w mWire) term() string {
	return fmt.Sprintf("{| w_id := %s; w_version := %s; w_issue := %s; w_destination := %s; w_issuer := %s; w_acs_url := %s; w_acs_index := %s |}",
		emit.Str(w.ID), emit.Str(w.Version), emit.OptStr(w.Issue), emit.Str(w.Destination), emit.OptStr(w.Issuer), emit.Str(w.ACSURL), emit.Str(w.ACSIndex))
}

// ---------- turning the mirror records into the library's values ----------

// toSAML builds the EntityDescriptor the registry hands to the IdP. Every ACS
// endpoint carries a unique ResponseLocation (not read by the IdP) so that the
// harness can tell which registered endpoint was selected even when locations,
// indices and bindings repeat.
func (m mMeta) toSAML() *saml.EntityDescriptor {
	ed := &saml.EntityDescriptor{EntityID: m.Entity}
	for di, d := range m.Descs {
		sd := saml.SPSSODescriptor{}
		sd.ProtocolSupportEnumeration = "urn:oasis:names:tc:SAML:2.0:protocol"
		sd.ID = fmt.Sprintf("desc%d", di)
		for _, e := range d.ACS {
			sd.AssertionConsumerServices = append(sd.AssertionConsumerServices, saml.IndexedEndpoint{
				Binding: e.Binding, Location: e.Location, Index: e.Index, IsDefault: e.Default, ResponseLocation: e.RL})
		}
		for _, k := range d.KDs {
			kd := saml.KeyDescriptor{Use: k.Use}
			for _, c := range k.Certs {
				kd.KeyInfo.X509Data.X509Certificates = append(kd.KeyInfo.X509Data.X509Certificates, saml.X509Certificate{Data: c})
			}
			sd.KeyDescriptors = append(sd.KeyDescriptors, kd)
		}
		for si, s := range d.Svcs {
			as := saml.AttributeConsumingService{Index: si, IsDefault: s.Default,
				ServiceNames:        []saml.LocalizedName{{Lang: "en", Value: fmt.Sprintf("META-ONLY-service-name-%d", si)}},
				ServiceDescriptions: []saml.LocalizedName{{Lang: "en", Value: "META-ONLY-service-description"}}}
			for _, r := range s.Requested {
				ra := saml.RequestedAttribute{}
				ra.FriendlyName, ra.Name, ra.NameFormat = r.Friendly, r.Name, r.Format
				for _, v := range r.Values {
					ra.Values = append(ra.Values, saml.AttributeValue{Type: "xs:string", Value: v})
				}
				as.RequestedAttributes = append(as.RequestedAttributes, ra)
			}
			sd.AttributeConsumingServices = append(sd.AttributeConsumingServices, as)
		}
		ed.SPSSODescriptors = append(ed.SPSSODescriptors, sd)
	}
	return ed
}

type stubRegistry struct {
	entries   []mRegEntry
	built     map[int]*saml.EntityDescriptor
	buildErrs int
}

// metaOf returns the model-side metadata behind a descriptor the registry handed out.
func (r *stubRegistry) metaOf(ed *saml.EntityDescriptor) *mMeta {
	for i, b := range r.built {
		if b == ed {
			return r.entries[i].MD
		}
	}
	return nil
}

var errLookup = errors.New("registry backend unavailable")

func (r *stubRegistry) GetServiceProvider(_ *http.Request, id string) (*saml.EntityDescriptor, error) {
	for i, e := range r.entries {
		if e.ID == id {
			switch e.Kind {
			case "found":
				if r.built == nil {
					r.built = map[int]*saml.EntityDescriptor{}
				}
				if r.built[i] == nil {
					ed, err := e.MD.build()
					if err != nil { // the harness only marks parsable documents ViaXML; treat anything else as a backend error
						r.buildErrs++
						return nil, errLookup
					}
					r.built[i] = ed
				}
				return r.built[i], nil
			case "notexist":
				return nil, os.ErrNotExist
			case "wrapped-notexist":
				return nil, fmt.Errorf("lookup %q: %w", id, os.ErrNotExist)
			default:
				return nil, errLookup
			}
		}
	}
	return nil, os.ErrNotExist
}

type stubSessions struct{ s *saml.Session }

func (p stubSessions) GetSession(http.ResponseWriter, *http.Request, *saml.IdpAuthnRequest) *saml.Session {
	return p.s
}

// key pairs by identifier
var keyNames = map[int64]string{1: "rsa_a", 2: "rsa_b", 3: "rsa_c"}

func keyOf(id int64) *rsa.PrivateKey { return fix.RSAKey(keyNames[id]) }

// certificates are parsed once: the same *x509.Certificate value is handed out for a key every time, the
// way an application keeps its certificate object while it rotates other settings
var certCache = map[string]*x509.Certificate{}

func cachedCert(name string) *x509.Certificate {
	if c, ok := certCache[name]; ok {
		return c
	}
	c := fix.Cert(name)
	certCache[name] = c
	return c
}

func certOf(id int64) *x509.Certificate { return cachedCert(keyNames[id]) }

func mustURL(s string) url.URL {
	u, err := url.Parse(s)
	if err != nil {
		panic(err)
	}
	return *u
}

// newIDP builds the real IdentityProvider for a model configuration. The
// certificate is the one of the key the model says signs (Signer when set).
func newIDP(cfg mCfg, reg *stubRegistry, sess *saml.Session) *saml.IdentityProvider {
	idp := &saml.IdentityProvider{Logger: log.New(io.Discard, "", 0), ServiceProviderProvider: reg}
	configureIDP(idp, cfg, sess)
	return idp
}

// configureIDP assigns the configuration to an existing IdentityProvider value, field by field —
// for a long-lived value this is the in-place rotation an application performs.
func configureIDP(idp *saml.IdentityProvider, cfg mCfg, sess *saml.Session) {
	idp.Key = keyOf(cfg.Key)
	idp.Certificate = certOf(cfg.Key)
	idp.Signer = nil
	idp.MetadataURL = mustURL(cfg.Entity)
	idp.SSOURL = mustURL(cfg.SSOURL)
	idp.SessionProvider = stubSessions{sess}
	idp.SignatureMethod = cfg.Method
	if cfg.Signer != nil {
		switch {
		case *cfg.Signer == ecSignerID:
			idp.Signer = fix.ECKey("ec_256")
		case cfg.SignerKind == "opaque-rsa":
			idp.Signer = opaqueSigner{keyOf(*cfg.Signer)}
		default:
			idp.Signer = crypto.Signer(keyOf(*cfg.Signer))
		}
		idp.Certificate = certOfAny(*cfg.Signer)
	}
}

// ---------- one long-lived IdentityProvider and a registry that stores metadata objects ----------

// liveRegistry hands out the SAME stored *EntityDescriptor for an entity every time (as samlidp does);
// metadata changes are made IN PLACE on the stored object.
type liveRegistry struct {
	sps map[string]*liveSP
}
type liveSP struct {
	ed      *saml.EntityDescriptor
	md      *mMeta
	applied string
}

func (r *liveRegistry) GetServiceProvider(_ *http.Request, id string) (*saml.EntityDescriptor, error) {
	if sp, ok := r.sps[id]; ok {
		return sp.ed, nil
	}
	return nil, os.ErrNotExist
}

type idpWorld struct {
	idp *saml.IdentityProvider
	reg *liveRegistry
}

func newWorld() *idpWorld {
	reg := &liveRegistry{sps: map[string]*liveSP{}}
	return &idpWorld{idp: &saml.IdentityProvider{Logger: log.New(io.Discard, "", 0), ServiceProviderProvider: reg}, reg: reg}
}

// setSP registers md under key; when the content differs from what is stored, the stored object is
// overwritten in place (same pointer, new content). Unchanged metadata is left untouched, so that damage
// done to the stored object by anything else stays visible.
func (w *idpWorld) setSP(key string, md *mMeta) {
	t := md.term() + certTable(md)
	sp, ok := w.reg.sps[key]
	if !ok {
		w.reg.sps[key] = &liveSP{ed: md.toSAML(), md: md, applied: t}
		return
	}
	if sp.applied != t {
		*sp.ed = *md.toSAML()
		sp.md, sp.applied = md, t
	}
}

// failingWriter accepts only the first [limit] bytes of the body and then reports an error
// (short = true: reports a short write without error first).
type failingWriter struct {
	http.ResponseWriter
	limit int
	short bool
}

func (f *failingWriter) Write(p []byte) (int, error) {
	if f.limit >= len(p) {
		f.limit -= len(p)
		return f.ResponseWriter.Write(p)
	}
	n := f.limit
	f.limit = 0
	_, _ = f.ResponseWriter.Write(p[:n])
	if f.short {
		return n, nil
	}
	return n, errors.New("connection reset by peer")
}

// withGlobals sets the package variables the IdP reads and restores them.
func withGlobals(cfg mCfg, now time.Time, f func()) {
	oldNow, oldDelay, oldSkew := saml.TimeNow, saml.MaxIssueDelay, saml.MaxClockSkew
	defer func() { saml.TimeNow, saml.MaxIssueDelay, saml.MaxClockSkew = oldNow, oldDelay, oldSkew }()
	saml.TimeNow = func() time.Time { return now }
	saml.MaxIssueDelay, saml.MaxClockSkew = cfg.Delay, cfg.Skew
	f()
}

// ---------- requests on the wire ----------

func xmlAttr(name, v string) string {
	var b bytes.Buffer
	_ = xml.EscapeText(&b, []byte(v))
	return " " + name + `="` + b.String() + `"`
}

func (w mWire) xml() string {
	var sb strings.Builder
	sb.WriteString(`<samlp:AuthnRequest xmlns:samlp="urn:oasis:names:tc:SAML:2.0:protocol" xmlns:saml="urn:oasis:names:tc:SAML:2.0:assertion"`)
	opt := func(name, v string) {
		if v != "" || w.explicitEmptyAttr {
			sb.WriteString(xmlAttr(name, v))
		}
	}
	opt("ID", w.ID)
	opt("Version", w.Version)
	if w.Issue != nil {
		sb.WriteString(xmlAttr("IssueInstant", *w.Issue))
	}
	opt("Destination", w.Destination)
	opt("AssertionConsumerServiceURL", w.ACSURL)
	opt("AssertionConsumerServiceIndex", w.ACSIndex)
	sb.WriteString(">")
	if w.Issuer != nil {
		var b bytes.Buffer
		_ = xml.EscapeText(&b, []byte(*w.Issuer))
		sb.WriteString(`<saml:Issuer Format="urn:oasis:names:tc:SAML:2.0:nameid-format:entity">` + b.String() + `</saml:Issuer>`)
	}
	sb.WriteString(`</samlp:AuthnRequest>`)
	return sb.String()
}

func deflate(b []byte) []byte {
	var buf bytes.Buffer
	w, _ := flate.NewWriter(&buf, flate.DefaultCompression)
	_, _ = w.Write(b)
	_ = w.Close()
	return buf.Bytes()
}

// httpRequest wraps raw request bytes for one of the two bindings.
// samlRequest is the final value of the SAMLRequest parameter.
func httpRequest(method, ssoURL, samlRequest, relay string) *http.Request {
	q := url.Values{}
	q.Set("SAMLRequest", samlRequest)
	if relay != "" {
		q.Set("RelayState", relay)
	}
	var r *http.Request
	if method == "POST" {
		r = httptest.NewRequest("POST", ssoURL, strings.NewReader(q.Encode()))
		r.Header.Set("Content-Type", "application/x-www-form-urlencoded")
	} else {
		sep := "?"
		if strings.Contains(ssoURL, "?") {
			sep = "&"
		}
		r = httptest.NewRequest(method, ssoURL+sep+q.Encode(), nil)
	}
	return r
}

func encodeFor(method string, xmlBytes []byte) string {
	if method == "POST" {
		return base64.StdEncoding.EncodeToString(xmlBytes)
	}
	return base64.StdEncoding.EncodeToString(deflate(xmlBytes))
}

var actionRe = regexp.MustCompile(`<form method="post" action="([^"]*)"`)
var respValRe = regexp.MustCompile(`name="SAMLResponse" value="([^"]*)"`)
var relayValRe = regexp.MustCompile(`name="RelayState" value="([^"]*)"`)

type httpObs struct {
	Kind   string // "400" "404" "500" "form" "panic" "other"
	Action string
	Body   string
	Code   int
}

func (h httpObs) term() string {
	switch h.Kind {
	case "400":
		return "H400"
	case "404":
		return "H404"
	case "500":
		return "H500"
	case "form":
		return "(HForm " + emit.Str(h.Action) + ")"
	}
	return "HPanic" // anything the model has no class for counts as a disagreement
}

func observeHTTP(f func(w http.ResponseWriter)) (obs httpObs) {
	rec := httptest.NewRecorder()
	defer func() {
		if r := recover(); r != nil {
			obs = httpObs{Kind: "panic", Body: fmt.Sprint(r)}
		}
	}()
	f(rec)
	body := rec.Body.String()
	obs = httpObs{Code: rec.Code, Body: body}
	switch {
	case rec.Code == 400:
		obs.Kind = "400"
	case rec.Code == 404:
		obs.Kind = "404"
	case rec.Code == 500:
		obs.Kind = "500"
	case rec.Code == 200:
		m := actionRe.FindStringSubmatch(body)
		if m == nil {
			obs.Kind = "other"
		} else {
			obs.Kind = "form"
			obs.Action = html.UnescapeString(m[1])
		}
	default:
		obs.Kind = "other"
	}
	return obs
}

func pick[T any](r *rand.Rand, xs []T) T { return xs[r.Intn(len(xs))] }
func sptr(s string) *string              { return &s }
func bptr(b bool) *bool                  { return &b }
func iptr(i int64) *int64                { return &i }

func httptestGet(u string) *http.Request { return httptest.NewRequest("GET", u, nil) }
func emitStr(s string) string            { return emit.Str(s) }

func emitBool(b bool) string { return emit.Bool(b) }

func osErrNotExist() error { return os.ErrNotExist }
