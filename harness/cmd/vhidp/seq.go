package main

// Histories: ONE long-lived IdentityProvider value and one registry that hands out the same stored
// *EntityDescriptor every time, driven through sequences of requests with configuration and metadata
// edited in place, failed deliveries, repeated requests and requests held while others are decoded.
// Every checked step is an ordinary case for the model under the configuration current at that step:
// what it returns / emits must be exactly what a fresh IdentityProvider with that configuration would.

import (
	"runtime/debug"
	. "verifharness/internal/core"

	"fmt"
	"net/http"
	"strings"
	"time"

	"github.com/crewjam/saml"

	"verifharness/internal/fix"
)

type seqEmit func(in c06Input, kds []mKeyDesc, markers []string, key map[string]string)

type history struct {
	c       *Ctx
	w       *idpWorld
	cfg     mCfg
	now     time.Time
	emit    seqEmit
	name    string
	step    int
	markers []string // of every request of this history so far
	interm  bool
}

func seqBaseCfg() mCfg {
	return mCfg{SSOURL: "https://idp.example.com/saml/sso", Entity: "https://idp.example.com/saml/metadata", Delay: 90 * time.Second, Skew: 180 * time.Second, Key: 1}
}

func seqSPA() *mMeta {
	return &mMeta{Entity: "https://spa.example.com/md", Descs: []mSPSSO{{ACS: []mEndpoint{
		{Binding: bPost, Location: "https://spa.example.com/acs/1", Index: 0}, {Binding: bPost, Location: "https://spa.example.com/acs/2", Index: 1},
		{Binding: bRedirect, Location: "https://spa.example.com/redirect", Index: 2}}}}}
}
func seqSPB(cert string) *mMeta {
	return &mMeta{Entity: "https://spb.example.com/md", Descs: []mSPSSO{{ACS: []mEndpoint{{Binding: bPost, Location: "https://spb.example.com/acs", Index: 0}},
		KDs: []mKeyDesc{{Use: "signing", Certs: []string{fix.CertB64("rsa_a")}}, {Use: "encryption", Certs: []string{fix.CertB64(cert)}}}}}}
}

// one entity, two SPSSODescriptors with different encryption keys
func seqSPC(cert0, cert1 string) *mMeta {
	kd := func(c string) []mKeyDesc {
		if c == "" {
			return nil
		}
		return []mKeyDesc{{Use: "encryption", Certs: []string{fix.CertB64(c)}}}
	}
	return &mMeta{Entity: "https://spc.example.com/md", Descs: []mSPSSO{
		{ACS: []mEndpoint{{Binding: bPost, Location: "https://spc.example.com/role0/acs", Index: 0}}, KDs: kd(cert0)},
		{ACS: []mEndpoint{{Binding: bPost, Location: "https://spc.example.com/role1/acs", Index: 1}}, KDs: kd(cert1)}}}
}

// input builds the case input for a request of this history to the SP described by md.
func (h *history) input(md *mMeta, route func(*mWire)) (c06Input, []string) {
	r := h.c.Rng
	sess, markers := markerSession(r)
	w := &mWire{ID: fmt.Sprintf("id-%016x", r.Uint64()), Version: "2.0", Destination: h.cfg.SSOURL, Issuer: sptr(md.Entity),
		Issue: sptr(h.now.UTC().Format("2006-01-02T15:04:05.000Z"))}
	if route != nil {
		route(w)
	}
	in := c06Input{cfg: h.cfg, md: md, regKey: md.Entity, wire: w, issue: h.now, sess: sess, now: h.now, tnow: h.now, addr: "192.0.2.7:4711",
		relay: fmt.Sprintf("relay-%d", h.step), method: pick(r, []string{"GET", "POST"}), intermediates: h.interm, viaServe: r.Intn(2) == 0,
		world: h.w, foreignMarkers: append([]string{}, h.markers...)}
	return in, markers
}

// respond: a checked step
func (h *history) respond(md *mMeta, route func(*mWire), what string) {
	in, markers := h.input(md, route)
	h.step++
	key := map[string]string{"class": "history", "history": h.name, "step": fmt.Sprintf("%d:%s", h.step, what)}
	var kds []mKeyDesc
	if len(md.Descs) > 0 {
		kds = md.Descs[0].KDs
	}
	h.emit(in, kds, markers, key)
	h.markers = append(h.markers, markers...)
}

// failed: a delivery that fails (writer error, short write, template failing part-way); nothing is checked
// on it, it only leaves its traces for the following steps to stumble over
func (h *history) failed(md *mMeta, mode string) {
	// several in a row: whatever a failed delivery leaves behind (pooled buffers, caches) is left behind
	// wherever the following delivery may pick it up
	for n := 0; n < 3; n++ {
		h.failedOnce(md, mode)
	}
}

func (h *history) failedOnce(md *mMeta, mode string) {
	in, markers := h.input(md, nil)
	h.step++
	switch mode {
	case "write-error":
		in.failWrite = 150 + h.c.Rng.Intn(600)
	case "short-write":
		in.failWrite, in.shortWrite = 100+h.c.Rng.Intn(900), true
	default:
		in.failTemplate = true
	}
	in.viaServe = h.c.Rng.Intn(2) == 0
	_ = runResponse(h.c, in)
	h.c.Count("history/failed-delivery/" + mode)
	h.markers = append(h.markers, markers...)
}

// tamper: application code edits the per-request copies req.ACSEndpoint / req.SPSSODescriptor in place
// (what an AssertionMaker or SessionProvider is free to do); the stored metadata must not change with them
func (h *history) tamper(md *mMeta) {
	in, _ := h.input(md, nil)
	h.w.setSP(in.regKey, in.md)
	configureIDP(h.w.idp, h.cfg, in.sess.toSAML())
	withGlobals(h.cfg, h.now, func() {
		defer func() { _ = recover() }()
		hr := httpRequest("POST", h.cfg.SSOURL, encodeFor("POST", []byte(in.wire.xml())), "")
		req, err := saml.NewIdpAuthnRequest(h.w.idp, hr)
		if err == nil {
			err = req.Validate()
		}
		if err != nil || req.ACSEndpoint == nil || req.SPSSODescriptor == nil {
			return
		}
		req.ACSEndpoint.Location = "https://attacker.example.net/collect"
		req.ACSEndpoint.Binding = saml.HTTPPostBinding
		// (fields of the copies are assigned; elements of the slices the descriptor copy shares with the
		// stored descriptor are not written — the copy is shallow on the unchanged tree as well)
		req.SPSSODescriptor.KeyDescriptors = nil
		req.SPSSODescriptor.AssertionConsumerServices = nil
	})
	h.c.Count("history/tamper-with-request-copies")
}

func newHistory(c *Ctx, emit seqEmit, name string) *history {
	return &history{c: c, w: newWorld(), cfg: seqBaseCfg(), now: c05Nows[0], emit: emit, name: name}
}

func byIndex(i int) func(*mWire)  { return func(w *mWire) { w.ACSIndex = fmt.Sprint(i) } }
func byURL(u string) func(*mWire) { return func(w *mWire) { w.ACSURL = u } }

// runHistories drives the scripted histories; [enc] = the property cares about encryption (C08): more of
// the key-rotation moves; otherwise (C06) more of the signing-rotation moves.
func runHistories(c *Ctx, emit seqEmit, rounds int) {
	r := c.Rng
	// no collection during a history: what the library keeps between two deliveries (pools, caches) stays
	// kept, as in a busy server between two collections
	defer debug.SetGCPercent(debug.SetGCPercent(-1))
	fails := []string{"write-error", "short-write", "template"}
	for k := 0; k < rounds; k++ {
		// --- deliveries that fail, followed by deliveries to another SP / user ---
		h := newHistory(c, emit, "failed-deliveries")
		a, b, cc := seqSPA(), seqSPB("rsa_b"), seqSPC("rsa_b", "rsa_c")
		h.respond(a, nil, "first response")
		h.failed(a, fails[k%3])
		h.respond(b, nil, "encrypting SP after a failed delivery to a plaintext SP")
		h.failed(b, fails[(k+1)%3])
		h.respond(a, byIndex(1), "plaintext SP after a failed delivery to an encrypting SP")
		h.failed(a, fails[(k+2)%3])
		h.failed(a, fails[k%3])
		h.respond(cc, byIndex(1), "second role of a two-role entity after two failed deliveries")
		h.respond(a, nil, "and again")

		// --- signing configuration rotated in place after a first signed response ---
		h = newHistory(c, emit, "signing-rotation")
		h.respond(a, nil, "first signature (default method, Key 1)")
		h.cfg.Method = rsaSHA256
		h.respond(a, nil, "SignatureMethod changed in place")
		h.cfg.Signer, h.cfg.SignerKind = iptr(2), "opaque-rsa"
		h.respond(b, nil, "Signer (opaque, key 2) set in place")
		h.interm = true
		h.respond(a, byURL("https://spa.example.com/acs/2"), "Intermediates set in place")
		h.cfg.Signer, h.cfg.SignerKind, h.cfg.Method = iptr(ecSignerID), "ecdsa", "http://www.w3.org/2001/04/xmldsig-more#ecdsa-sha256"
		h.respond(a, nil, "ECDSA Signer and method set in place")
		h.cfg.Signer, h.cfg.SignerKind, h.cfg.Method, h.cfg.Key = nil, "", pick(r, []string{"", rsaSHA512}), 3
		h.interm = false
		h.respond(b, nil, "Signer removed, Key replaced by key 3, Intermediates removed")
		h.cfg.Key = 1
		h.respond(a, nil, "Key back to key 1 (same method)")
		h.cfg.Signer, h.cfg.SignerKind = iptr(3), "rsa"
		h.respond(a, nil, "Signer key 3 while Key stays")

		// --- the SP's stored metadata object edited in place; a two-role entity answered in both orders ---
		h = newHistory(c, emit, "metadata-edited-in-place")
		h.respond(b, nil, "encryption certificate rsa_b")
		b2 := seqSPB("rsa_c")
		h.respond(b2, nil, "encryption certificate replaced in place by rsa_c")
		order := [][]int{{0, 1, 0}, {1, 0, 1}}[k%2]
		for _, role := range order {
			h.respond(cc, byIndex(role), fmt.Sprintf("role %d of the two-role entity", role))
		}
		cc2 := seqSPC("rsa_c", "")
		h.respond(cc2, byIndex(0), "role 0 now with rsa_c, role 1 without key (edited in place)")
		h.respond(cc2, byIndex(1), "role 1 without key")
		h.respond(seqSPB("ec_256"), nil, "encryption certificate replaced by one the IdP cannot use")
		h.respond(b, nil, "and back to rsa_b")
		a2 := seqSPA()
		a2.Descs[0].ACS[0], a2.Descs[0].ACS[1] = a2.Descs[0].ACS[1], a2.Descs[0].ACS[0]
		a2.Descs[0].ACS = append(a2.Descs[0].ACS, mEndpoint{Binding: bPost, Location: "https://spa.example.com/acs/3", Index: 7, Default: bptr(true)})
		h.respond(a, nil, "ACS list before the edit (default selection)")
		h.respond(a2, nil, "ACS list reordered and a default endpoint added, in place")
		h.respond(a2, byIndex(0), "by index after the edit")

		// --- application code edits the request's endpoint / descriptor copies; same request presented again ---
		h = newHistory(c, emit, "request-copies-edited")
		h.respond(a, nil, "before")
		h.tamper(a)
		h.respond(a, nil, "default selection after req.ACSEndpoint / req.SPSSODescriptor of another request were edited")
		h.respond(a, byIndex(0), "by index")
		h.tamper(b)
		h.respond(b, nil, "encrypting SP after its descriptor copy lost its KeyDescriptors in another request")
		same := func(w *mWire) { w.ID = "id-presented-twice" }
		h.respond(a, same, "a request")
		h.respond(a, same, "the same request presented again")
	}
}

const rsaSHA256 = "http://www.w3.org/2001/04/xmldsig-more#rsa-sha256"
const rsaSHA512 = "http://www.w3.org/2001/04/xmldsig-more#rsa-sha512"

// ---------- C05: requests alive at the same time, on one IdentityProvider ----------

// worldMeta finds the model-side metadata of a stored descriptor
func (w *idpWorld) metaOf(ed *saml.EntityDescriptor) *mMeta {
	for _, sp := range w.reg.sps {
		if sp.ed == ed {
			return sp.md
		}
	}
	return nil
}

func seqC05(c *Ctx, g *Group) {
	r := c.Rng
	rounds := 24
	if c.Thorough() {
		rounds = 240
	}
	// no collection while two requests are held: whatever the library shares between two decodings
	// (pools, caches) stays shared, as in a busy server between two collections
	defer debug.SetGCPercent(debug.SetGCPercent(-1))
	for k := 0; k < rounds; k++ {
		w := newWorld()
		cfg := seqBaseCfg()
		now := pick(r, c05Nows)
		a := seqSPA()
		w.setSP(a.Entity, a)
		configureIDP(w.idp, cfg, c05Session)
		reg := []mRegEntry{{ID: a.Entity, Kind: "found", MD: a}}
		base := mWire{ID: "id-alive-000000001", Version: "2.0", Issue: sptr(now.UTC().Format("2006-01-02T15:04:05.000Z")), Destination: cfg.SSOURL, Issuer: sptr(a.Entity)}
		// requests of EQUAL serialised length that differ in what decides the verdict / the routing
		variants := []func(*mWire){
			func(w *mWire) {},
			func(w *mWire) { w.Issuer = sptr(strings.Replace(a.Entity, "spa.", "spx.", 1)) },                // unknown issuer
			func(w *mWire) { w.Version = "2.1" },                                                            // wrong version
			func(w *mWire) { w.Destination = strings.Replace(cfg.SSOURL, "/sso", "/ssx", 1) },               // wrong destination
			func(w *mWire) { w.Issue = sptr(now.Add(-time.Hour).UTC().Format("2006-01-02T15:04:05.000Z")) }, // stale
			func(w *mWire) { w.ID = "id-alive-000000002" },                                                  // only the ID
		}
		withIdx := func(i string) func(*mWire) { return func(w *mWire) { w.ACSIndex = i } }
		variants = append(variants, withIdx("0"), withIdx("1"), withIdx("2"), withIdx("9"))
		names := []string{"valid", "unknown issuer", "wrong version", "wrong destination", "stale", "other ID", "index 0", "index 1", "index 2", "index 9"}
		i1 := r.Intn(len(variants))
		i2 := (i1 + 1 + r.Intn(len(variants)-1)) % len(variants) // a different one
		w1, w2 := base, base
		variants[i1](&w1)
		variants[i2](&w2)
		if (w1.ACSIndex == "") != (w2.ACSIndex == "") { // keep the lengths equal
			w2.ACSIndex = w1.ACSIndex
		}
		method := "GET"
		if k%4 == 3 {
			method = "POST"
		}
		var v1, v2 string
		var info1, info2 map[string]any
		var h1, h2 httpObs
		withGlobals(cfg, now, func() {
			mk := func(w mWire) *http.Request {
				return httpRequest(method, cfg.SSOURL, encodeFor(method, []byte(w.xml())), "relay")
			}
			// decode request 1, then request 2 while request 1 is still held; then validate 1, then 2
			v1, info1, v2, info2 = validateHeld(w, mk(w1), mk(w2))
			h1 = observeHTTP(func(rw http.ResponseWriter) { w.idp.ServeSSO(rw, mk(w1)) })
			h2 = observeHTTP(func(rw http.ResponseWriter) { w.idp.ServeSSO(rw, mk(w2)) })
		})
		// application code edits the endpoint / descriptor copies of a validated request in place; the
		// same requests are then presented again and must be routed as before
		var v3, v4 string
		var info3, info4 map[string]any
		var h3 httpObs
		w3, w4 := base, base
		w3.ID, w4.ID, w4.ACSIndex = "id-after-edit-1", "id-after-edit-2", "0"
		withGlobals(cfg, now, func() {
			mk := func(w mWire) *http.Request {
				return httpRequest("POST", cfg.SSOURL, encodeFor("POST", []byte(w.xml())), "relay")
			}
			func() {
				defer func() { _ = recover() }()
				q, err := saml.NewIdpAuthnRequest(w.idp, mk(base))
				if err == nil && q.Validate() == nil && q.ACSEndpoint != nil && q.SPSSODescriptor != nil {
					q.ACSEndpoint.Location = "https://attacker.example.net/collect"
					q.SPSSODescriptor.AssertionConsumerServices = append(q.SPSSODescriptor.AssertionConsumerServices[:0:0],
						saml.IndexedEndpoint{Binding: saml.HTTPPostBinding, Location: "https://attacker.example.net/only", Index: 0})
				}
			}()
			v3, info3, v4, info4 = validateHeld(w, mk(w3), mk(w4))
			h3 = observeHTTP(func(rw http.ResponseWriter) { w.idp.ServeSSO(rw, mk(w3)) })
		})
		h4 := observeHTTPWith(cfg, now, func(rw http.ResponseWriter) {
			w.idp.ServeSSO(rw, httpRequest("POST", cfg.SSOURL, encodeFor("POST", []byte(w4.xml())), "relay"))
		})
		for i, x := range []struct {
			w    mWire
			v    string
			info map[string]any
			h    httpObs
		}{{w1, v1, info1, h1}, {w2, v2, info2, h2}, {w3, v3, info3, h3}, {w4, v4, info4, h4}} {
			c.Count("history/held-requests/" + method)
			c.Add(g, &Case{
				Key:   map[string]string{"class": "history", "history": "two requests alive at once", "which": fmt.Sprint(i + 1), "binding": method, "request_1": names[i1], "request_2": names[i2]},
				Input: map[string]any{"request_1_xml": w1.xml(), "request_2_xml": w2.xml(), "order": "decode 1, decode 2, validate 1, validate 2", "this_case_is_request": i + 1},
				Obs:   map[string]any{"validate": x.v, "detail": x.info, "serve_sso_kind": x.h.Kind, "form_action": x.h.Action},
				Term: fmt.Sprintf("{| c5_cfg := %s; c5_reg := %s; c5_now := %s; c5_req := (Decoded %s); c5_obs := %s; c5_http := %s |}",
					cfg.term(), regTerm(reg), emitTime(now), x.w.term(), x.v, x.h.term()),
			})
		}
	}
}

func observeHTTPWith(cfg mCfg, now time.Time, f func(http.ResponseWriter)) (obs httpObs) {
	withGlobals(cfg, now, func() { obs = observeHTTP(f) })
	return
}

func validateHeld(w *idpWorld, r1, r2 *http.Request) (v1 string, i1 map[string]any, v2 string, i2 map[string]any) {
	i1, i2 = map[string]any{}, map[string]any{}
	v1, v2 = "VPanic", "VPanic"
	defer func() {
		if p := recover(); p != nil {
			i1["panic"] = fmt.Sprint(p)
		}
	}()
	q1, e1 := saml.NewIdpAuthnRequest(w.idp, r1)
	q2, e2 := saml.NewIdpAuthnRequest(w.idp, r2)
	one := func(q *saml.IdpAuthnRequest, e error, info map[string]any) string {
		if e != nil {
			info["new_error"] = e.Error()
			return "VErr"
		}
		if err := q.Validate(); err != nil {
			info["validate_error"] = err.Error()
			return "VErr"
		}
		di, ei, ok := posOf(w.metaOf(q.ServiceProviderMetadata), q.SPSSODescriptor, q.ACSEndpoint)
		if !ok {
			return "(VOk (-1) (-1))"
		}
		info["selected"] = fmt.Sprintf("descriptor %d endpoint %d location %s", di, ei, q.ACSEndpoint.Location)
		return fmt.Sprintf("(VOk %d %d)", di, ei)
	}
	v1 = one(q1, e1, i1)
	v2 = one(q2, e2, i2)
	return
}
