package main

// Byte layer of C07: etree's escapeString and encoding/xml's text decoding,
// compared with XmlText.etree_escape / xml_read on hostile strings.

import (
	. "verifharness/internal/core"

	"encoding/xml"
	"fmt"
	"io"
	"math/rand"
	"strings"

	"github.com/beevik/etree"

	"verifharness/internal/emit"
)

// etreeEscape returns what etree writes for s as text / attribute value in the given mode
// (0 default settings, 1 CanonicalText, 2 CanonicalAttrVal).
func etreeEscape(mode int, attr bool, s string) (string, bool) {
	doc := etree.NewDocument()
	doc.WriteSettings.CanonicalText = mode == 1
	doc.WriteSettings.CanonicalAttrVal = mode == 2
	el := doc.CreateElement("a")
	if attr {
		el.CreateAttr("b", s)
	} else {
		el.SetText(s)
	}
	out, err := doc.WriteToString()
	if err != nil {
		return "", false
	}
	if attr {
		if !strings.HasPrefix(out, `<a b="`) || !strings.HasSuffix(out, `"/>`) {
			return out, false
		}
		return out[len(`<a b="`) : len(out)-len(`"/>`)], true
	}
	if out == "<a/>" {
		return "", true
	}
	if !strings.HasPrefix(out, "<a>") || !strings.HasSuffix(out, "</a>") {
		return out, false
	}
	return out[3 : len(out)-4], true
}

// xmlRead returns what encoding/xml (strict) reads back from raw bytes placed
// between tags / quotes; nil when it refuses, or when the raw bytes end the
// text node / attribute value themselves ('<', '"').
func xmlRead(attr bool, raw string) (res *string) {
	defer func() {
		if recover() != nil {
			res = nil
		}
	}()
	var docText string
	if attr {
		if strings.Contains(raw, `"`) || strings.Contains(raw, "<") {
			return nil
		}
		docText = `<a b="` + raw + `"/>`
	} else {
		if strings.Contains(raw, "<") {
			return nil
		}
		docText = "<a>" + raw + "</a>"
	}
	d := xml.NewDecoder(strings.NewReader(docText))
	var text strings.Builder
	var got string
	seenStart := false
	for {
		tok, err := d.Token()
		if err == io.EOF {
			break
		}
		if err != nil {
			return nil
		}
		switch t := tok.(type) {
		case xml.StartElement:
			seenStart = true
			if attr {
				if len(t.Attr) != 1 {
					return nil
				}
				got = t.Attr[0].Value
			}
		case xml.CharData:
			text.Write(t)
		case xml.EndElement:
		default:
			return nil
		}
	}
	if !seenStart {
		return nil
	}
	if !attr {
		got = text.String()
	}
	return &got
}

var hostileAtoms = []string{"&", "<", ">", "'", "\"", "]]>", "]]", "]", "\r", "\n", "\r\n", "\n\r", "\t", " ", "  ", "<!--", "-->", "<![CDATA[", "&amp;", "&lt;", "&#xD;", "&#13;", "a", "b", "Z", "0",
	"\u00e9", "\u00df", "\u65e5\u672c", "\u00a0", "\u2028", "\ufeff", "\ufffd", "\U0001F600", "\U0010FFFF", "\U00010000", "\ud7ff", "\ue000", "\x7f", "\u0080", "\u0085", "=", ";", "#", "x", "/", "\\", "%", "+"}
var nonXMLAtoms = []string{"\x00", "\x01", "\x08", "\x0b", "\x0c", "\x1f", "\ufffe", "\uffff", "\xff", "\xc0\x80", "\xed\xa0\x80", "\xf4\x90\x80\x80", "\xe2\x82", "\x80", "\xc3", "\xf0\x9f\x98"}
var readAtoms = []string{"&amp;", "&lt;", "&gt;", "&apos;", "&quot;", "&#xD;", "&#xd;", "&#13;", "&#xA;", "&#x9;", "&#10;", "&#x0;", "&#0;", "&#xD800;", "&#xDFFF;", "&#x110000;", "&#x10FFFF;", "&#xFFFE;", "&#xFFFD;",
	"&;", "&#;", "&#x;", "&foo;", "&amp", "&", "&#x41;", "&#65;", "&#065;", "&#x041;", "&AMP;", "&l.t;", "& ", "&#x 41;", "&#99999999999999999999999;", "&#xFFFFFFFFFFFFFFFFF;", "&#1x;", "&#x1g;", "&#-1;", "&\u00e9;", "&1t;", "&lt", "&#x1F600;", "&#128512;",
	"&#x80;", "&#x7FF;", "&#x800;", "&#xFFFF;", "&#x10000;", "&#xE000;", "&#xD7FF;"}

func genHostile(r *rand.Rand, valid bool) string {
	var sb strings.Builder
	for i, n := 0, r.Intn(6); i <= n; i++ {
		switch {
		case !valid && r.Intn(3) == 0:
			sb.WriteString(pick(r, nonXMLAtoms))
		case r.Intn(8) == 0:
			sb.WriteString(fmt.Sprintf("%c", rune(0x20+r.Intn(0x2000))))
		default:
			sb.WriteString(pick(r, hostileAtoms))
		}
	}
	return sb.String()
}

func c07Text(c *Ctx) {
	ge := c.Group("esc", []string{"XmlText"}, "esccase", "check_esccases")
	gr := c.Group("read", []string{"XmlText"}, "readcase", "check_readcases")
	addEsc := func(mode int, attr bool, s, class string) {
		out, ok := etreeEscape(mode, attr, s)
		if !ok {
			c.Count("esc/unextractable")
			return
		}
		back := xmlRead(attr, out)
		c.Count(fmt.Sprintf("esc/mode%d/attr=%v/%s", mode, attr, class))
		rt := "other"
		if back == nil {
			rt = "refused"
		} else if *back == s {
			rt = "same"
		}
		c.Count("esc_roundtrip/" + rt)
		sc := class
		if attr && mode == 2 && validXMLChars(s) && strings.Contains(s, "]]>") {
			sc = "cdata-end-in-attribute" // known finding K4
		}
		c.Add(ge, &Case{
			Key:   map[string]string{"op": "escape+read", "mode": fmt.Sprint(mode), "attr": fmt.Sprint(attr), "class": class, "string_class": sc},
			Input: map[string]any{"string": s, "mode": mode, "attribute": attr},
			Obs:   map[string]any{"written": out, "read_back": back},
			Term: fmt.Sprintf("{| xe_mode := %d; xe_attr := %s; xe_in := %s; xe_out := %s; xe_back := %s |}",
				mode, emit.Bool(attr), emit.Str(s), emit.Str(out), emit.OptStr(back)),
			Trivial: s == "",
		})
	}
	combos := []struct {
		mode int
		attr bool
	}{{0, false}, {1, false}, {0, true}, {2, true}}
	var fixed []string
	fixed = append(fixed, "")
	fixed = append(fixed, hostileAtoms...)
	fixed = append(fixed, nonXMLAtoms...)
	fixed = append(fixed, "a\rb", "a\r\nb", "\r", " lead", "trail ", "a]]>b", "]]>", "]]]>", "]]&gt;", "]>]>", "a\tb\nc", "<a b=\"c\">d</a>", "&amp;amp;", "x&#xD;y")
	for _, s := range fixed {
		for _, cb := range combos {
			addEsc(cb.mode, cb.attr, s, "fixed")
		}
	}
	n := 500
	if c.Thorough() {
		n = 10000
	}
	for i := 0; i < n; i++ {
		valid := c.Rng.Intn(4) != 0
		s := genHostile(c.Rng, valid)
		cb := pick(c.Rng, combos)
		cls := "valid-chars"
		if !valid {
			cls = "with-non-xml-bytes"
		}
		addEsc(cb.mode, cb.attr, s, cls)
	}
	addRead := func(attr bool, raw, class string) {
		res := xmlRead(attr, raw)
		k := "ok"
		if res == nil {
			k = "refused"
		}
		c.Count("read/" + class + "/" + k)
		c.Add(gr, &Case{
			Key:   map[string]string{"op": "read", "attr": fmt.Sprint(attr), "class": class},
			Input: map[string]any{"raw": raw, "attribute": attr},
			Obs:   map[string]any{"read": res},
			Term:  fmt.Sprintf("{| xr_attr := %s; xr_raw := %s; xr_res := %s |}", emit.Bool(attr), emit.Str(raw), emit.OptStr(res)),
		})
	}
	for _, s := range append(append([]string{}, readAtoms...), fixed...) {
		addRead(false, s, "fixed")
		addRead(true, s, "fixed")
		addRead(false, "x"+s+"y", "fixed")
		addRead(true, "]"+s+">", "fixed")
	}
	m := 600
	if c.Thorough() {
		m = 12000
	}
	for i := 0; i < m; i++ {
		var sb strings.Builder
		for j, k := 0, c.Rng.Intn(5); j <= k; j++ {
			switch c.Rng.Intn(4) {
			case 0:
				sb.WriteString(pick(c.Rng, readAtoms))
			case 1:
				sb.WriteString(pick(c.Rng, nonXMLAtoms))
			default:
				sb.WriteString(pick(c.Rng, hostileAtoms))
			}
		}
		addRead(c.Rng.Intn(2) == 0, sb.String(), "random")
	}
}

func init() { Props["C07"] = runC07 }

func runC07(c *Ctx) {
	c07Text(c)
	c07Pipeline(c)
}
