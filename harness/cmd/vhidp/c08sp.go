package main

// SP side of C08: the decrypted assertion goes through the same checks as a
// plaintext one, and undecryptable or malformed ciphertext is a validation
// failure (an error, never a panic, never an accepted assertion).

import (
	. "verifharness/internal/core"

	"crypto/aes"
	"crypto/cipher"
	"crypto/des"
	"crypto/rand"
	"crypto/rsa"
	"crypto/sha1"
	"encoding/base64"
	"fmt"
	mrand "math/rand"
	"net/http/httptest"
	"net/url"
	"sort"
	"strings"
	"time"

	"github.com/beevik/etree"
	"github.com/crewjam/saml"

	"verifharness/internal/fix"
)

type spFixture struct {
	sp    *saml.ServiceProvider
	idp   *saml.IdentityProvider
	spMD  *saml.EntityDescriptor
	cfg   mCfg
	now   time.Time
	reqID string
}

func newSPFixture(now time.Time, withCert bool) *spFixture {
	cfg := mCfg{SSOURL: "https://idp.example.com/saml/sso", Entity: "https://idp.example.com/saml/metadata", Delay: 90 * time.Second, Skew: 180 * time.Second, Key: 1}
	f := &spFixture{cfg: cfg, now: now, reqID: "id-request-1"}
	withGlobals(cfg, now, func() {
		f.idp = newIDP(cfg, nil, c05Session)
		idpMD, _ := xmlReparse(f.idp.Metadata())
		f.sp = &saml.ServiceProvider{Key: fix.RSAKey("rsa_b"), Certificate: fix.Cert("rsa_b"), MetadataURL: mustURL("https://sp.example.com/saml2/metadata"),
			AcsURL: mustURL("https://sp.example.com/saml2/acs"), IDPMetadata: idpMD}
		pub := *f.sp
		if !withCert {
			pub.Certificate = nil // the metadata handed to the IdP advertises no key: the IdP signs but does not encrypt
		}
		f.spMD, _ = xmlReparse(pub.Metadata())
		f.idp.ServiceProviderProvider = reparsedRegistry{f.spMD}
	})
	return f
}

// signedAssertion has the real IdP build and sign an assertion, after [mutate] changed it.
func (f *spFixture) signedAssertion(mutate func(*saml.Assertion), signKey int64) (xmlText string, err error) {
	defer func() {
		if p := recover(); p != nil {
			err = fmt.Errorf("panic: %v", p)
		}
	}()
	withGlobals(f.cfg, f.now, func() {
		idp := *f.idp
		if signKey > 1 {
			idp.Key = keyOf(signKey) // signs with a key the SP does not trust (certificate left as is)
		}
		w := mWire{ID: f.reqID, Version: "2.0", Issue: sptr(f.now.UTC().Format("2006-01-02T15:04:05.000Z")), Destination: f.cfg.SSOURL,
			Issuer: sptr(f.spMD.EntityID), ACSURL: f.sp.AcsURL.String()}
		hr := httpRequest("POST", f.cfg.SSOURL, encodeFor("POST", []byte(w.xml())), "")
		req, e := saml.NewIdpAuthnRequest(&idp, hr)
		if e == nil {
			e = req.Validate()
		}
		if e == nil {
			e = (saml.DefaultAssertionMaker{}).MakeAssertion(req, c05Session)
		}
		if e != nil {
			err = e
			return
		}
		if mutate != nil {
			mutate(req.Assertion)
		}
		if signKey == 0 { // unsigned
			doc := etree.NewDocument()
			doc.WriteSettings.CanonicalText, doc.WriteSettings.CanonicalAttrVal = true, true
			doc.SetRoot(req.Assertion.Element())
			xmlText, err = doc.WriteToString()
			return
		}
		if e := req.MakeAssertionEl(); e != nil {
			err = e
			return
		}
		doc := etree.NewDocument()
		doc.WriteSettings.CanonicalText, doc.WriteSettings.CanonicalAttrVal = true, true
		doc.SetRoot(req.AssertionEl)
		xmlText, err = doc.WriteToString()
	})
	return
}

func (f *spFixture) responseXML(inner string) string {
	return fmt.Sprintf(`<samlp:Response xmlns:samlp="urn:oasis:names:tc:SAML:2.0:protocol" xmlns:saml="urn:oasis:names:tc:SAML:2.0:assertion" ID="id-resp-1" InResponseTo="%s" Version="2.0" IssueInstant="%s" Destination="%s">`+
		`<saml:Issuer>%s</saml:Issuer><samlp:Status><samlp:StatusCode Value="urn:oasis:names:tc:SAML:2.0:status:Success"/></samlp:Status>%s</samlp:Response>`,
		f.reqID, f.now.UTC().Format("2006-01-02T15:04:05.000Z"), f.sp.AcsURL.String(), f.cfg.Entity, inner)
}

func (f *spFixture) parse(xmlText string) (kind, detail string) {
	defer func() {
		if p := recover(); p != nil {
			kind, detail = "panic", fmt.Sprint(p)
		}
	}()
	withGlobals(f.cfg, f.now, func() {
		a, err := f.sp.ParseXMLResponse([]byte(xmlText), []string{f.reqID}, url.URL(f.sp.AcsURL))
		switch {
		case err != nil && a == nil:
			kind, detail = "rejected", err.Error()
			if ire, ok := err.(*saml.InvalidResponseError); ok && ire.PrivateErr != nil {
				detail = ire.PrivateErr.Error()
			}
		case err == nil && a != nil:
			kind = "accepted"
		default:
			kind, detail = "inconsistent", "assertion and error both nil or both set"
		}
	})
	return
}

type blockAlg struct {
	uri     string
	keySize int
	bs      int
	gcm     bool
}

var spAlgs = []blockAlg{
	{"http://www.w3.org/2001/04/xmlenc#aes128-cbc", 16, 16, false}, {"http://www.w3.org/2001/04/xmlenc#aes192-cbc", 24, 16, false},
	{"http://www.w3.org/2001/04/xmlenc#aes256-cbc", 32, 16, false}, {"http://www.w3.org/2001/04/xmlenc#tripledes-cbc", 24, 8, false},
	{"http://www.w3.org/2009/xmlenc11#aes128-gcm", 16, 16, true}, {"urn:example:unknown-cipher", 16, 16, false},
}

// encryptedAssertionXML wraps [cipherValue] (already IV||ciphertext) with a content key wrapped to [pub].
func encryptedAssertionXML(alg blockAlg, key []byte, pub *rsa.PublicKey, cipherValue []byte, certB64 string, sibling bool) string {
	wrapped, _ := rsa.EncryptOAEP(sha1.New(), rand.Reader, pub, key, nil)
	x509 := ""
	if certB64 != "" {
		x509 = `<ds:KeyInfo><ds:X509Data><ds:X509Certificate>` + certB64 + `</ds:X509Certificate></ds:X509Data></ds:KeyInfo>`
	}
	ek := `<xenc:EncryptedKey xmlns:xenc="http://www.w3.org/2001/04/xmlenc#" Id="_ek"><xenc:EncryptionMethod Algorithm="http://www.w3.org/2001/04/xmlenc#rsa-oaep-mgf1p">` +
		`<ds:DigestMethod xmlns:ds="http://www.w3.org/2000/09/xmldsig#" Algorithm="http://www.w3.org/2000/09/xmldsig#sha1"/></xenc:EncryptionMethod>` + x509 +
		`<xenc:CipherData><xenc:CipherValue>` + base64.StdEncoding.EncodeToString(wrapped) + `</xenc:CipherValue></xenc:CipherData></xenc:EncryptedKey>`
	inner, outer := ek, ""
	if sibling { // EncryptedKey as a sibling of EncryptedData (the other layout decryptElement supports)
		inner, outer = "", ek
	}
	return `<saml:EncryptedAssertion xmlns:saml="urn:oasis:names:tc:SAML:2.0:assertion" xmlns:ds="http://www.w3.org/2000/09/xmldsig#">` +
		`<xenc:EncryptedData xmlns:xenc="http://www.w3.org/2001/04/xmlenc#" Id="_ed" Type="http://www.w3.org/2001/04/xmlenc#Element">` +
		`<xenc:EncryptionMethod Algorithm="` + alg.uri + `"/><ds:KeyInfo>` + inner + `</ds:KeyInfo>` +
		`<xenc:CipherData><xenc:CipherValue>` + base64.StdEncoding.EncodeToString(cipherValue) + `</xenc:CipherValue></xenc:CipherData></xenc:EncryptedData>` + outer +
		`</saml:EncryptedAssertion>`
}

// encParts returns an EncryptedData element with an empty ds:KeyInfo and the matching EncryptedKey element.
func encParts(alg blockAlg, key []byte, pub *rsa.PublicKey, cipherValue []byte, certB64 string) (edata, ekey string) {
	wrapped, _ := rsa.EncryptOAEP(sha1.New(), rand.Reader, pub, key, nil)
	ekey = `<xenc:EncryptedKey xmlns:xenc="http://www.w3.org/2001/04/xmlenc#" Id="_ek"><xenc:EncryptionMethod Algorithm="http://www.w3.org/2001/04/xmlenc#rsa-oaep-mgf1p">` +
		`<ds:DigestMethod xmlns:ds="http://www.w3.org/2000/09/xmldsig#" Algorithm="http://www.w3.org/2000/09/xmldsig#sha1"/></xenc:EncryptionMethod>` +
		`<ds:KeyInfo xmlns:ds="http://www.w3.org/2000/09/xmldsig#"><ds:X509Data><ds:X509Certificate>` + certB64 + `</ds:X509Certificate></ds:X509Data></ds:KeyInfo>` +
		`<xenc:CipherData><xenc:CipherValue>` + base64.StdEncoding.EncodeToString(wrapped) + `</xenc:CipherValue></xenc:CipherData></xenc:EncryptedKey>`
	edata = `<xenc:EncryptedData xmlns:xenc="http://www.w3.org/2001/04/xmlenc#" Type="http://www.w3.org/2001/04/xmlenc#Element">` +
		`<xenc:EncryptionMethod Algorithm="` + alg.uri + `"/><ds:KeyInfo></ds:KeyInfo>` +
		`<xenc:CipherData><xenc:CipherValue>` + base64.StdEncoding.EncodeToString(cipherValue) + `</xenc:CipherValue></xenc:CipherData></xenc:EncryptedData>`
	return
}

func cbcEncrypt(alg blockAlg, key, plain []byte, r *mrand.Rand) []byte {
	var blk cipher.Block
	if alg.bs == 8 {
		blk, _ = des.NewTripleDESCipher(key)
	} else {
		blk, _ = aes.NewCipher(key)
	}
	pad := alg.bs - len(plain)%alg.bs
	p := append(append([]byte{}, plain...), make([]byte, pad)...)
	p[len(p)-1] = byte(pad)
	iv := make([]byte, alg.bs)
	r.Read(iv)
	out := make([]byte, len(p))
	cipher.NewCBCEncrypter(blk, iv).CryptBlocks(out, p)
	return append(iv, out...)
}

func c08SPSide(c *Ctx) {
	g := c.Group("spside", nil, "bool", "check_bools")
	r := c.Rng
	now := c05Nows[0]
	f := newSPFixture(now, false) // the IdP signs a plaintext assertion; the harness encrypts it itself
	spPub := &fix.RSAKey("rsa_b").PublicKey
	add := func(class string, key map[string]string, input any, ok bool, kind, detail string) {
		key["class"] = class
		c.Count("spside/" + class + "/" + kind)
		c.Add(g, &Case{Key: key, Input: input, Obs: map[string]any{"outcome": kind, "detail": detail, "verdict": ok}, Term: emitBool(ok), Dedup: fmt.Sprint(c.N)})
	}

	// (1) malformed ciphertext of every length, for every cipher, with a correctly wrapped key (only the SP's public certificate is needed)
	lengths := []int{0, 1, 7, 8, 9, 12, 15, 16, 17, 23, 24, 25, 28, 31, 32, 33, 40, 47, 48, 56, 64, 72, 96, 120, 168}
	if c.Thorough() {
		for l := 0; l <= 200; l++ {
			lengths = append(lengths, l)
		}
	}
	for _, alg := range spAlgs {
		for _, l := range lengths {
			for _, sibling := range []bool{false, true} {
				if sibling && l%8 != 0 {
					continue
				}
				key := make([]byte, alg.keySize)
				r.Read(key)
				cv := make([]byte, l)
				r.Read(cv)
				x := f.responseXML(encryptedAssertionXML(alg, key, spPub, cv, fix.CertB64("rsa_b"), sibling))
				kind, detail := f.parse(x)
				add("malformed-ciphertext", map[string]string{"alg": alg.uri, "len": fmt.Sprint(l), "sibling_key": fmt.Sprint(sibling)},
					map[string]any{"cipher": alg.uri, "cipher_value_length": l, "encrypted_key_as_sibling": sibling}, kind == "rejected", kind, detail)
			}
		}
		// wrong content-key length
		for _, kl := range []int{0, 1, 15, 17, 24, 33} {
			if kl == alg.keySize {
				continue
			}
			key := make([]byte, kl)
			cv := make([]byte, 64)
			r.Read(cv)
			x := f.responseXML(encryptedAssertionXML(alg, key, spPub, cv, "", false))
			kind, detail := f.parse(x)
			add("wrong-key-length", map[string]string{"alg": alg.uri, "keylen": fmt.Sprint(kl)}, map[string]any{"cipher": alg.uri, "content_key_length": kl}, kind == "rejected", kind, detail)
		}
	}

	// (2) differential: the same IdP-built assertion, plaintext vs encrypted by a third party to the SP's certificate
	variants := []struct {
		name    string
		mutate  func(*saml.Assertion)
		signKey int64
		want    string
	}{
		{"valid", nil, 1, "accepted"},
		{"unsigned", nil, 0, "rejected"},
		{"signed-by-untrusted-key", nil, 3, "rejected"},
		{"conditions-expired", func(a *saml.Assertion) { a.Conditions.NotOnOrAfter = now.Add(-time.Hour) }, 1, "rejected"},
		{"conditions-not-yet-valid", func(a *saml.Assertion) { a.Conditions.NotBefore = now.Add(time.Hour) }, 1, "rejected"},
		{"bearer-expired", func(a *saml.Assertion) {
			a.Subject.SubjectConfirmations[0].SubjectConfirmationData.NotOnOrAfter = now.Add(-time.Hour)
		}, 1, "rejected"},
		{"wrong-audience", func(a *saml.Assertion) {
			a.Conditions.AudienceRestrictions[0].Audience.Value = "https://other.example.com/md"
		}, 1, "rejected"},
		{"wrong-recipient", func(a *saml.Assertion) {
			a.Subject.SubjectConfirmations[0].SubjectConfirmationData.Recipient = "https://other.example.com/acs"
		}, 1, "rejected"},
		{"wrong-in-response-to", func(a *saml.Assertion) {
			a.Subject.SubjectConfirmations[0].SubjectConfirmationData.InResponseTo = "id-other"
		}, 1, "rejected"},
		{"wrong-issuer", func(a *saml.Assertion) { a.Issuer.Value = "https://evil.example.net/md" }, 1, "rejected"},
		{"issued-long-ago", func(a *saml.Assertion) { a.IssueInstant = now.Add(-time.Hour) }, 1, "rejected"},
		{"no-subject", func(a *saml.Assertion) { a.Subject = nil }, 1, "rejected"},
		{"no-conditions", func(a *saml.Assertion) { a.Conditions = nil }, 1, "rejected"},
	}
	for _, v := range variants {
		ax, err := f.signedAssertion(v.mutate, v.signKey)
		if err != nil {
			add("differential", map[string]string{"variant": v.name}, map[string]any{"variant": v.name}, false, "setup-failed", err.Error())
			continue
		}
		pk, pd := f.parse(f.responseXML(ax))
		for _, alg := range spAlgs[:4] {
			key := make([]byte, alg.keySize)
			r.Read(key)
			cv := cbcEncrypt(alg, key, []byte(ax), r)
			ek, ed := f.parse(f.responseXML(encryptedAssertionXML(alg, key, spPub, cv, fix.CertB64("rsa_b"), false)))
			ok := pk == ek && pk == v.want
			add("differential", map[string]string{"variant": v.name, "alg": alg.uri},
				map[string]any{"variant": v.name, "cipher": alg.uri, "assertion_xml": ax},
				ok, fmt.Sprintf("plain=%s encrypted=%s", pk, ek), fmt.Sprintf("plain: %s | encrypted: %s", pd, ed))
		}
		// encrypted to a key that is not the SP's: undecryptable, a validation failure
		other := &fix.RSAKey("rsa_c").PublicKey
		key := make([]byte, 16)
		r.Read(key)
		cv := cbcEncrypt(spAlgs[0], key, []byte(ax), r)
		kind, detail := f.parse(f.responseXML(encryptedAssertionXML(spAlgs[0], key, other, cv, "", false)))
		add("encrypted-to-another-key", map[string]string{"variant": v.name}, map[string]any{"variant": v.name}, kind == "rejected", kind, detail)
	}

	// (2b) bytes that etree parses but the XML round-trip validator refuses (an empty CDATA section is
	// invisible to exclusive c14n, so the IdP's signature stays valid): the same bytes must get the same
	// verdict — refused — whether presented as a plaintext assertion or encrypted to the SP by a third party
	if ax, err := f.signedAssertion(nil, 1); err == nil {
		inject := func(after string, what string) string {
			i := strings.Index(ax, after)
			if i < 0 {
				return ""
			}
			return ax[:i+len(after)] + what + ax[i+len(after):]
		}
		unsafe := map[string]string{
			"empty-cdata-after-issuer":   inject("</saml:Issuer>", "<![CDATA[]]>"),
			"empty-cdata-in-nameid":      inject("</saml:NameID>", ""),
			"empty-cdata-before-subject": inject("<saml:Subject>", "<![CDATA[]]>"),
			"empty-cdata-at-end":         strings.Replace(ax, "</saml:Assertion>", "<![CDATA[]]></saml:Assertion>", 1),
			"two-empty-cdata":            inject("</saml:Issuer>", "<![CDATA[]]><![CDATA[]]>"),
		}
		if i := strings.Index(ax, "</saml:NameID>"); i > 0 {
			unsafe["empty-cdata-in-nameid"] = ax[:i] + "<![CDATA[]]>" + ax[i:]
		}
		names := make([]string, 0, len(unsafe))
		for n := range unsafe {
			names = append(names, n)
		}
		sort.Strings(names)
		for _, n := range names {
			x := unsafe[n]
			if x == "" {
				continue
			}
			pk, pd := f.parse(f.responseXML(x))
			for _, alg := range spAlgs[:4] {
				key := make([]byte, alg.keySize)
				r.Read(key)
				cv := cbcEncrypt(alg, key, []byte(x), r)
				for _, sibling := range []bool{false, true} {
					ek, ed := f.parse(f.responseXML(encryptedAssertionXML(alg, key, spPub, cv, fix.CertB64("rsa_b"), sibling)))
					add("roundtrip-unsafe-plaintext", map[string]string{"variant": n, "alg": alg.uri, "sibling_key": fmt.Sprint(sibling)},
						map[string]any{"variant": n, "cipher": alg.uri, "assertion_xml": x}, pk == "rejected" && ek == "rejected",
						fmt.Sprintf("plain=%s encrypted=%s", pk, ek), fmt.Sprintf("plain: %s | encrypted: %s", pd, ed))
				}
			}
		}
		// control: the untouched bytes, encrypted the same way, are accepted
		key := make([]byte, 16)
		r.Read(key)
		ek, ed := f.parse(f.responseXML(encryptedAssertionXML(spAlgs[0], key, spPub, cbcEncrypt(spAlgs[0], key, []byte(ax), r), "", false)))
		add("roundtrip-unsafe-plaintext", map[string]string{"variant": "control-untouched"}, map[string]any{"variant": "control"}, ek == "accepted", "encrypted="+ek, ed)
	}

	// (2c) the shape of the EncryptedAssertion element itself: exactly one EncryptedData child is
	// required (findOneChild); a decoy next to the genuine ciphertext, a ciphertext one level deeper,
	// or none at all must be refused whichever comes first
	if ax, err := f.signedAssertion(nil, 1); err == nil {
		alg := spAlgs[0]
		mk := func(plain string) (edata, ekey string) {
			key := make([]byte, alg.keySize)
			r.Read(key)
			return encParts(alg, key, spPub, cbcEncrypt(alg, key, []byte(plain), r), fix.CertB64("rsa_b"))
		}
		unsignedAx, _ := f.signedAssertion(func(a *saml.Assertion) { a.Subject.NameID.Value = "mallory" }, 0)
		genuine, gkey := mk(ax)
		decoy, dkey := mk(unsignedAx)
		garbage, _ := mk("not xml at all")
		wrap := func(kids ...string) string {
			return `<saml:EncryptedAssertion xmlns:saml="urn:oasis:names:tc:SAML:2.0:assertion" xmlns:ds="http://www.w3.org/2000/09/xmldsig#" xmlns:xenc="http://www.w3.org/2001/04/xmlenc#">` +
				strings.Join(kids, "") + `</saml:EncryptedAssertion>`
		}
		withKey := func(edata, ekey string) string { // EncryptedKey inside ds:KeyInfo of the EncryptedData
			return strings.Replace(edata, "<ds:KeyInfo></ds:KeyInfo>", "<ds:KeyInfo>"+ekey+"</ds:KeyInfo>", 1)
		}
		g, d, gb := withKey(genuine, gkey), withKey(decoy, dkey), withKey(garbage, gkey)
		shapes := []struct {
			name, xml, want string
		}{
			{"control-one-encrypted-data", wrap(g), "accepted"},
			{"control-sibling-key", wrap(genuine, gkey), "accepted"},
			{"two-encrypted-data-genuine-first", wrap(g, d), "rejected"},
			{"two-encrypted-data-decoy-first", wrap(d, g), "rejected"},
			{"two-encrypted-data-garbage-first", wrap(gb, g), "rejected"},
			{"two-encrypted-data-garbage-last", wrap(g, gb), "rejected"},
			{"same-encrypted-data-twice", wrap(g, g), "rejected"},
			{"three-encrypted-data", wrap(g, d, g), "rejected"},
			{"no-encrypted-data", wrap(), "rejected"},
			{"only-encrypted-key", wrap(gkey), "rejected"},
			{"encrypted-data-one-level-deeper", wrap(`<xenc:Wrapper>` + g + `</xenc:Wrapper>`), "rejected"},
			{"encrypted-data-in-other-namespace", wrap(strings.Replace(g, `xmlns:xenc="http://www.w3.org/2001/04/xmlenc#"`, `xmlns:xenc="urn:example:not-xmlenc"`, 1)), "rejected"},
			{"two-sibling-keys-decoy-data", wrap(decoy, gkey, dkey), "rejected"},
			{"two-encrypted-data-sibling-key", wrap(genuine, decoy, gkey), "rejected"},
		}
		for _, sh := range shapes {
			kind, detail := f.parse(f.responseXML(sh.xml))
			add("encrypted-assertion-shape", map[string]string{"shape": sh.name}, map[string]any{"shape": sh.name, "encrypted_assertion_xml": sh.xml},
				kind == sh.want, kind, detail)
		}
	}

	// (3) plaintexts that are not an assertion document
	for _, pt := range []string{"", " ", "not xml", "<a>", "<!-- only a comment -->", "<?xml version=\"1.0\"?>", "<saml:Assertion/>", "<Assertion xmlns=\"urn:oasis:names:tc:SAML:2.0:assertion\"/>",
		"<a/><b/>", "\x00\x01\x02", "<a>\xff</a>"} {
		alg := spAlgs[0]
		key := make([]byte, alg.keySize)
		r.Read(key)
		cv := cbcEncrypt(alg, key, []byte(pt), r)
		kind, detail := f.parse(f.responseXML(encryptedAssertionXML(alg, key, spPub, cv, "", false)))
		add("plaintext-not-an-assertion", map[string]string{"plaintext": fmt.Sprintf("%q", pt)}, map[string]any{"plaintext": pt}, kind == "rejected", kind, detail)
	}
	_ = httptest.NewRecorder
}
