package main

import . "verifharness/internal/core"

func c08SPSide(c *Ctx) {}
