package main

import (
	. "verifharness/internal/core"

	"bytes"
	"crypto/rand"
	"encoding/base64"
	"encoding/pem"
	"fmt"
	mrand "math/rand"
	"strings"
	"time"

	"github.com/crewjam/saml"
	"github.com/crewjam/saml/xmlenc"

	"verifharness/internal/fix"
)

func init() { Props["C08"] = runC08 }

// certificate strings as they may appear in <ds:X509Certificate>
type certChoice struct {
	class string
	data  *string // nil: the descriptor has no X509Certificate element at all
}

func wrap64(s string) string {
	var sb strings.Builder
	for i := 0; i < len(s); i += 64 {
		j := i + 64
		if j > len(s) {
			j = len(s)
		}
		sb.WriteString(s[i:j] + "\n")
	}
	return sb.String()
}

func c08CertChoices() []certChoice {
	b := fix.CertB64("rsa_b")
	c := fix.CertB64("rsa_c")
	ec := fix.CertB64("ec_256")
	der, _ := base64.StdEncoding.DecodeString(b)
	pemStr := string(pem.EncodeToMemory(&pem.Block{Type: "CERTIFICATE", Bytes: der}))
	return []certChoice{
		{"rsa-b", sptr(b)}, {"rsa-c", sptr(c)}, {"rsa-b-wrapped", sptr("\n" + wrap64(b) + "  ")}, {"rsa-c-tabs", sptr("\t" + c[:40] + " \r\n" + c[40:])},
		{"ec", sptr(ec)}, {"empty", sptr("")}, {"whitespace", sptr(" \n\t ")}, {"bad-base64", sptr("!!!not base64!!!")},
		{"bad-der", sptr(base64.StdEncoding.EncodeToString([]byte("this is not a certificate")))}, {"truncated", sptr(b[:len(b)/2&^3])},
		{"pem-armoured", sptr(pemStr)}, {"none", nil}, {"idp-own-cert", sptr(fix.CertB64("rsa_a"))},
	}
}

var c08Uses = []string{"encryption", "signing", "", "other", "Encryption", "encryption "}

func genKDLayout(r *mrand.Rand, choices []certChoice) ([]mKeyDesc, string) {
	n := pick(r, []int{0, 1, 1, 1, 2, 2, 2, 3, 3})
	var out []mKeyDesc
	var desc []string
	for i := 0; i < n; i++ {
		use := pick(r, []string{"encryption", "encryption", "encryption", "signing", "signing", "", "", pick(r, c08Uses)})
		ch := pick(r, choices)
		k := mKeyDesc{Use: use}
		if ch.data != nil {
			k.Certs = append(k.Certs, *ch.data)
			if r.Intn(6) == 0 { // a second certificate in the same descriptor (never looked at)
				k.Certs = append(k.Certs, *pick(r, choices[:2]).data)
			}
		}
		out = append(out, k)
		desc = append(desc, fmt.Sprintf("use=%q:%s", use, ch.class))
	}
	return out, strings.Join(desc, " | ")
}

// markerSession fills every session field with a distinct high-entropy marker.
func markerSession(r *mrand.Rand) (mSession, []string) {
	var markers []string
	mk := func(tag string) string {
		m := fmt.Sprintf("MK%s%012x", tag, r.Int63n(1<<48))
		markers = append(markers, m)
		return m
	}
	s := mSession{Create: time.Date(2015, 12, 1, 1, 0, 0, 0, time.UTC), Index: mk("idx"), NameID: mk("nid"), SubjectID: mk("sub"),
		UserName: mk("usr"), Email: mk("eml"), CommonName: mk("cnm"), Surname: mk("sur"), GivenName: mk("giv"), ScopedAff: mk("aff"), EPPN: mk("epn"),
		Groups: []string{mk("gr1"), mk("gr2")},
		Custom: []mAttribute{{Friendly: mk("cfn"), Name: mk("cnm"), Format: "urn:oasis:names:tc:SAML:2.0:attrname-format:basic",
			Values: []mAttrValue{{Type: "xs:string", Value: mk("cv1")}, {Type: "xs:string", Value: mk("cv2")}}}}}
	return s, markers
}

func scanMarkers(hay []byte, markers []string) []string {
	var found []string
	for _, m := range markers {
		if bytes.Contains(hay, []byte(m)) {
			found = append(found, m)
		}
	}
	return found
}

func c08One(c *Ctx, g *Group, kds []mKeyDesc, layout string, idx int) {
	r := c.Rng
	in, key := genInput06(r, func(*mrand.Rand) []mKeyDesc { return kds })
	// every descriptor of this metadata gets the layout; the routed one decides
	for i := range in.md.Descs {
		in.md.Descs[i].KDs = kds
		for j := range in.md.Descs[i].ACS { // keep unrelated reasons for "nothing emitted" out of this property
			in.md.Descs[i].ACS[j].Binding = bPost
		}
	}
	if _, ok := hashByMethod[in.cfg.Method]; !ok {
		in.cfg.Method = ""
	}
	var markers []string
	in.sess, markers = markerSession(r)
	key["layout"] = layout
	if len(layout) > 60 {
		key["layout"] = layout[:60]
	}
	// classes for known-finding matching / histogram
	cls := "other"
	for _, k := range kds {
		if k.Use == "encryption" {
			if len(k.Certs) > 0 && k.Certs[0] == "" {
				cls = "first-encryption-descriptor-has-empty-certificate" // regression class for fix F17
			}
			break
		}
	}
	key["layout_class"] = cls
	res := runResponse(c, in)
	obs := "O6Err"
	var specOK *bool
	obsJSON := map[string]any{"kind": res.kind, "detail": res.detail, "layout": layout}
	var problems []string
	switch res.kind {
	case "panic":
		obs = "O6Panic"
	case "form":
		if res.form.Err != nil {
			obs = "O6Panic"
			problems = append(problems, "emitted form cannot be read back: "+res.form.Err.Error())
		} else {
			resp := res.form.Resp
			obs = fmt.Sprintf("(O6Form %s %s %s)", emitStr(res.form.Action), resp.term(), emitStr(res.form.Relay))
			obsJSON["response_xml"] = string(res.form.XML)
			if resp.Enc != nil {
				key["emitted"] = "encrypted"
				if f := scanMarkers([]byte(res.html), markers); len(f) > 0 {
					problems = append(problems, fmt.Sprintf("session markers in the HTML page: %v", f))
				}
				if f := scanMarkers(res.form.XML, markers); len(f) > 0 {
					problems = append(problems, fmt.Sprintf("session markers in clear in the response XML: %v", f))
				}
				if !resp.Enc.OtherKeysFail {
					problems = append(problems, "content key unwraps under more than one private key")
				}
				if f := scanMarkers(resp.Enc.PlainXML, markers); len(f) != len(markers) {
					problems = append(problems, "decrypted assertion does not carry every session value")
				}
				problems = append(problems, resp.Enc.Problems...)
				// the drawn bytes: key = first draw, IV = last draw
				if n := len(res.encRaw); n < 4 || !bytes.Equal(res.encRaw[0], resp.Enc.Key) || !bytes.Equal(res.encRaw[n-1], resp.Enc.IV) {
					problems = append(problems, "content key / IV are not the bytes drawn from xmlenc.RandReader for this response")
				}
				obsJSON["rand_draw_sizes"] = drawSizes(res.encRaw)
			} else {
				key["emitted"] = "plaintext"
			}
		}
	default:
		key["emitted"] = "nothing"
	}
	if len(problems) > 0 {
		specOK = Bptr(false)
		obsJSON["problems"] = problems
	}
	key["outcome"] = res.kind
	c.Count("layout_class/" + cls)
	c.Count("emitted/" + key["emitted"])
	c.Count("descriptors/" + fmt.Sprint(len(kds)))
	for _, k := range kds {
		c.Count("use/" + k.Use)
	}
	var reqXML string
	if in.wire != nil {
		reqXML = in.wire.xml()
	}
	c.Add(g, &Case{
		Key:   key,
		Input: map[string]any{"key_descriptors": kds, "layout": layout, "cfg": in.cfg, "metadata_entity": in.md.Entity, "request_xml": reqXML, "session": in.sess},
		Obs:   obsJSON,
		Term: fmt.Sprintf("{| c6_cfg := %s; c6_md := %s; c6_certs := %s; c6_rq := %s; c6_sess := %s; c6_now := %s; c6_tnow := %s; c6_addr := %s; c6_relay := %s; c6_rnd := %s; c6_obs := %s |}",
			in.cfg.term(), in.md.term(), certTable(in.md), rqTerm(in.wire, in.issue), in.sess.term(), emitTime(in.now), emitTime(in.tnow), emitStr(in.addr), emitStr(in.relay),
			res.rnd.term(), obs),
		ImplSpecOK: specOK,
		Trivial:    len(kds) == 0,
	})
}

func drawSizes(d [][]byte) []int {
	var out []int
	for _, x := range d {
		out = append(out, len(x))
	}
	return out
}

// c08Fresh: two responses for the same session under the real crypto/rand must
// differ in content key, IV and both Ids.
func c08Fresh(c *Ctx, g *Group) {
	kds := []mKeyDesc{{Use: "encryption", Certs: []string{fix.CertB64("rsa_b")}}}
	in, _ := genInput06(c.Rng, func(*mrand.Rand) []mKeyDesc { return kds })
	in.cfg.Method = ""
	for i := range in.md.Descs {
		for j := range in.md.Descs[i].ACS {
			in.md.Descs[i].ACS[j].Binding = bPost
		}
	}
	var encs []*mEnc
	for k := 0; k < 2; k++ {
		res := runResponseRealRand(c, in)
		if res.kind == "form" && res.form.Err == nil && res.form.Resp.Enc != nil {
			encs = append(encs, res.form.Resp.Enc)
		}
	}
	ok := len(encs) == 2 && !bytes.Equal(encs[0].Key, encs[1].Key) && !bytes.Equal(encs[0].IV, encs[1].IV) &&
		!bytes.Equal(encs[0].KeyID, encs[1].KeyID) && !bytes.Equal(encs[0].DataID, encs[1].DataID) && !bytes.Equal(encs[0].Key, encs[0].IV)
	note := ""
	if len(encs) != 2 {
		note = "could not produce two encrypted responses"
	}
	c.Count("fresh/" + fmt.Sprint(ok))
	c.Add(g, &Case{Key: map[string]string{"class": "fresh-under-crypto-rand"}, Input: map[string]any{"flow": "two responses, same session, crypto/rand"},
		Obs: map[string]any{"distinct_key_iv_ids": ok, "note": note}, Term: emitBool(ok), Dedup: fmt.Sprint(c.N)})
}

func runResponseRealRand(c *Ctx, in c06Input) c06Result {
	// runResponse installs recording readers; wrap it with the real source instead
	res := runResponseWith(c, in, rand.Reader)
	return res
}

func runC08(c *Ctx) {
	// several groups so that the large case terms evaluate in parallel
	var gs []*Group
	for i := 0; i < 8; i++ {
		gs = append(gs, c.Group(fmt.Sprintf("kd%d", i), []string{"IdPModel"}, "c06case", "check_c08"))
	}
	gf := c.Group("fresh", nil, "bool", "check_bools")
	choices := c08CertChoices()
	i := 0
	add := func(kds []mKeyDesc, layout string) {
		c08One(c, gs[i%len(gs)], kds, layout, i)
		i++
	}
	// systematic: every single descriptor (use x certificate), then every ordered pair of a decisive first with a usable second
	for _, use := range c08Uses {
		for _, ch := range choices {
			k := mKeyDesc{Use: use}
			if ch.data != nil {
				k.Certs = []string{*ch.data}
			}
			add([]mKeyDesc{k}, fmt.Sprintf("use=%q:%s", use, ch.class))
		}
	}
	good := mKeyDesc{Use: "encryption", Certs: []string{fix.CertB64("rsa_c")}}
	goodUnspec := mKeyDesc{Use: "", Certs: []string{fix.CertB64("rsa_c")}}
	signing := mKeyDesc{Use: "signing", Certs: []string{fix.CertB64("rsa_b")}}
	for _, ch := range choices {
		k := mKeyDesc{Use: "encryption"}
		if ch.data != nil {
			k.Certs = []string{*ch.data}
		}
		add([]mKeyDesc{signing, k}, "signing | encryption:"+ch.class)
		add([]mKeyDesc{k, good}, "encryption:"+ch.class+" | encryption:rsa-c")
		add([]mKeyDesc{k, goodUnspec}, "encryption:"+ch.class+" | use-omitted:rsa-c")
		add([]mKeyDesc{goodUnspec, k}, "use-omitted:rsa-c | encryption:"+ch.class)
		u := mKeyDesc{Use: "", Certs: k.Certs}
		add([]mKeyDesc{signing, u}, "signing | use-omitted:"+ch.class)
		add([]mKeyDesc{u, goodUnspec}, "use-omitted:"+ch.class+" | use-omitted:rsa-c")
	}
	n := 250
	if c.Thorough() {
		n = 5000
	}
	for k := 0; k < n; k++ {
		kds, layout := genKDLayout(c.Rng, choices)
		add(kds, layout)
	}
	for k := 0; k < 5; k++ {
		c08Fresh(c, gf)
	}
	c08SPSide(c)
}

var _ = saml.HTTPPostBinding
var _ = xmlenc.RandReader
