package main

import (
	. "verifharness/internal/core"

	"bytes"
	"crypto/rand"
	"encoding/base64"
	"encoding/pem"
	"fmt"
	mrand "math/rand"
	"net/http/httptest"
	"sort"
	"strings"
	"time"

	"github.com/beevik/etree"
	"github.com/crewjam/saml"
	"github.com/crewjam/saml/xmlenc"
	"html"

	"verifharness/internal/fix"
)

func init() { Props["C08"] = runC08 }

// certificate strings as they may appear in <ds:X509Certificate>
type certChoice struct {
	class string
	data  *string // nil: the descriptor has no X509Certificate element at all
}

func wrap64(s string) string {
	var sb strings.Builder
	for i := 0; i < len(s); i += 64 {
		j := i + 64
		if j > len(s) {
			j = len(s)
		}
		sb.WriteString(s[i:j] + "\n")
	}
	return sb.String()
}

// wsVariants: the certificate text as real metadata files have it
func wsVariants(b64 string) map[string]string {
	wrapN := func(n int, sep string) string {
		var sb strings.Builder
		for i := 0; i < len(b64); i += n {
			j := i + n
			if j > len(b64) {
				j = len(b64)
			}
			sb.WriteString(b64[i:j] + sep)
		}
		return sb.String()
	}
	return map[string]string{
		"wrap64-lf":            "\n" + wrapN(64, "\n"),
		"wrap64-indented":      "\n            " + wrapN(64, "\n            "),
		"wrap76-crlf":          "\r\n" + wrapN(76, "\r\n"),
		"wrap76-crlf-indent":   "\r\n\t\t" + wrapN(76, "\r\n\t\t"),
		"wrap64-tab":           "\t" + wrapN(64, "\n\t"),
		"lead-trail-space":     "   " + b64 + "   ",
		"interior-space":       b64[:40] + " " + b64[40:100] + "  " + b64[100:],
		"interior-tab":         b64[:33] + "\t" + b64[33:],
		"formfeed":             b64[:20] + "\f" + b64[20:],
		"vertical-tab(not-ws)": b64[:20] + "\v" + b64[20:],
		"nbsp(not-ws)":         b64[:20] + "\u00a0" + b64[20:],
	}
}

func c08CertChoices() []certChoice {
	b := fix.CertB64("rsa_b")
	c := fix.CertB64("rsa_c")
	ec := fix.CertB64("ec_256")
	der, _ := base64.StdEncoding.DecodeString(b)
	pemStr := string(pem.EncodeToMemory(&pem.Block{Type: "CERTIFICATE", Bytes: der}))
	var ws []certChoice
	for name, v := range wsVariants(b) {
		ws = append(ws, certChoice{"rsa-b:" + name, sptr(v)})
	}
	for name, v := range wsVariants(c) {
		if strings.HasPrefix(name, "wrap") {
			ws = append(ws, certChoice{"rsa-c:" + name, sptr(v)})
		}
	}
	sort.Slice(ws, func(i, j int) bool { return ws[i].class < ws[j].class })
	base := []certChoice{
		{"rsa-b", sptr(b)}, {"rsa-c", sptr(c)}, {"rsa-b-wrapped", sptr("\n" + wrap64(b) + "  ")}, {"rsa-c-tabs", sptr("\t" + c[:40] + " \r\n" + c[40:])},
		{"ec", sptr(ec)}, {"empty", sptr("")}, {"whitespace", sptr(" \n\t ")}, {"bad-base64", sptr("!!!not base64!!!")},
		{"bad-der", sptr(base64.StdEncoding.EncodeToString([]byte("this is not a certificate")))}, {"truncated", sptr(b[:len(b)/2&^3])},
		{"pem-armoured", sptr(pemStr)}, {"none", nil}, {"idp-own-cert", sptr(fix.CertB64("rsa_a"))},
	}
	return append(base, ws...)
}

var c08Uses = []string{"encryption", "signing", "", "other", "Encryption", "encryption "}

func genKDLayout(r *mrand.Rand, choices []certChoice) ([]mKeyDesc, string) {
	n := pick(r, []int{0, 1, 1, 1, 2, 2, 2, 3, 3})
	var out []mKeyDesc
	var desc []string
	for i := 0; i < n; i++ {
		use := pick(r, []string{"encryption", "encryption", "encryption", "signing", "signing", "", "", pick(r, c08Uses)})
		ch := pick(r, choices)
		k := mKeyDesc{Use: use}
		if ch.data != nil {
			k.Certs = append(k.Certs, *ch.data)
			if r.Intn(6) == 0 { // a second certificate in the same descriptor (never looked at)
				k.Certs = append(k.Certs, *pick(r, choices[:2]).data)
			}
		}
		out = append(out, k)
		desc = append(desc, fmt.Sprintf("use=%q:%s", use, ch.class))
	}
	return out, strings.Join(desc, " | ")
}

// markerSession fills every session field with a distinct high-entropy marker.
func markerSession(r *mrand.Rand) (mSession, []string) {
	var markers []string
	mk := func(tag string) string {
		m := fmt.Sprintf("MK%s%012x", tag, r.Int63n(1<<48))
		markers = append(markers, m)
		return m
	}
	s := mSession{Create: time.Date(2015, 12, 1, 1, 0, 0, 0, time.UTC), Index: mk("idx"), NameID: mk("nid"), SubjectID: mk("sub"),
		UserName: mk("usr"), Email: mk("eml"), CommonName: mk("cnm"), Surname: mk("sur"), GivenName: mk("giv"), ScopedAff: mk("aff"), EPPN: mk("epn"),
		Groups: []string{mk("gr1"), mk("gr2")},
		Custom: []mAttribute{{Friendly: mk("cfn"), Name: mk("cnm"), Format: "urn:oasis:names:tc:SAML:2.0:attrname-format:basic",
			Values: []mAttrValue{{Type: "xs:string", Value: mk("cv1")}, {Type: "xs:string", Value: mk("cv2")}}}}}
	// control characters in every session string that lands in an XML ATTRIBUTE of the assertion: the
	// serialisation before encryption must write them as character references
	ctl := func() string { return pick(r, []string{"", "", "\rx", "\r\nx", "\tx", "\nx", "x\r"}) }
	s.Index += ctl()
	s.NameIDFormat = "urn:x" + ctl()
	s.Custom[0].Friendly += ctl()
	s.Custom[0].Name += ctl()
	s.Custom[0].Format += ctl()
	s.Custom[0].Values[0].Type += ctl()
	s.NameID += ctl() // and, for comparison, in a text node
	s.Custom[0].Values[1].Value += ctl()
	return s, markers
}

func scanMarkers(hay []byte, markers []string) []string {
	var found []string
	for _, m := range markers {
		if bytes.Contains(hay, []byte(m)) {
			found = append(found, m)
		}
	}
	return found
}

func c08One(c *Ctx, g, gsteps *Group, kds []mKeyDesc, layout string, idx int) {
	r := c.Rng
	in, key := genInput06(r, func(*mrand.Rand) []mKeyDesc { return kds })
	// every descriptor of this metadata gets the layout; the routed one decides
	for i := range in.md.Descs {
		in.md.Descs[i].KDs = kds
		for j := range in.md.Descs[i].ACS { // keep unrelated reasons for "nothing emitted" out of this property
			in.md.Descs[i].ACS[j].Binding = bPost
		}
	}
	if in.cfg.Signer != nil && *in.cfg.Signer == ecSignerID { // signer kinds are C06's dimension
		in.cfg.Signer, in.cfg.SignerKind, in.cfg.Method = nil, "", ""
	}
	if _, ok := hashByMethod[in.cfg.Method]; !ok || strings.Contains(in.cfg.Method, "#ecdsa-") {
		in.cfg.Method = ""
	}
	var markers []string
	in.sess, markers = markerSession(r)
	key["layout"] = layout
	if len(layout) > 60 {
		key["layout"] = layout[:60]
	}
	// classes for known-finding matching / histogram
	cls := "other"
	for _, k := range kds {
		if k.Use == "encryption" {
			if len(k.Certs) > 0 && k.Certs[0] == "" {
				cls = "first-encryption-descriptor-has-empty-certificate" // regression class for fix F17
			}
			break
		}
	}
	key["layout_class"] = cls
	c08EmitPrepared(c, g, gsteps, in, kds, layout, markers, key)
}

// c08EmitPrepared runs one prepared response case and records it for check_c08.
func c08EmitPrepared(c *Ctx, g, gsteps *Group, in c06Input, kds []mKeyDesc, layout string, markers []string, key map[string]string) {
	cls := key["layout_class"]
	res := runResponse(c, in)
	obs := "O6Err"
	var specOK *bool
	obsJSON := map[string]any{"kind": res.kind, "detail": res.detail, "layout": layout}
	var problems []string
	switch res.kind {
	case "panic":
		obs = "O6Panic"
	case "form":
		if res.form.Err != nil {
			obs = "O6Panic"
			problems = append(problems, "emitted form cannot be read back: "+res.form.Err.Error())
		} else {
			resp := res.form.Resp
			obs = fmt.Sprintf("(O6Form %s %s %s)", emitStr(registeredAction(in.md, res.form.Action)), resp.term(), emitStr(res.form.Relay))
			obsJSON["response_xml"] = string(res.form.XML)
			if resp.Enc != nil {
				key["emitted"] = "encrypted"
				if f := scanMarkers([]byte(res.html), markers); len(f) > 0 {
					problems = append(problems, fmt.Sprintf("session markers in the HTML page: %v", f))
				}
				if f := scanMarkers(res.form.XML, markers); len(f) > 0 {
					problems = append(problems, fmt.Sprintf("session markers in clear in the response XML: %v", f))
				}
				if !resp.Enc.OtherKeysFail {
					problems = append(problems, "content key unwraps under more than one private key")
				}
				if f := scanMarkers(resp.Enc.PlainXML, markers); len(f) != len(markers) {
					problems = append(problems, "decrypted assertion does not carry every session value")
				}
				problems = append(problems, resp.Enc.Problems...)
				// the drawn bytes: key = first draw, IV = last draw
				if n := len(res.encRaw); n < 4 || !bytes.Equal(res.encRaw[0], resp.Enc.Key) || !bytes.Equal(res.encRaw[n-1], resp.Enc.IV) {
					problems = append(problems, "content key / IV are not the bytes drawn from xmlenc.RandReader for this response")
				}
				obsJSON["rand_draw_sizes"] = drawSizes(res.encRaw)
			} else {
				key["emitted"] = "plaintext"
			}
		}
	default:
		key["emitted"] = "nothing"
	}
	if res.kind == "form" {
		problems = append(problems, pageProblems(res.html, in.foreignMarkers)...)
	}
	if len(problems) > 0 {
		specOK = Bptr(false)
		obsJSON["problems"] = problems
	}
	key["outcome"] = res.kind
	c.Count("layout_class/" + cls)
	c.Count("emitted/" + key["emitted"])
	c.Count("descriptors/" + fmt.Sprint(len(kds)))
	for _, k := range kds {
		c.Count("use/" + k.Use)
	}
	var reqXML string
	if in.wire != nil {
		reqXML = in.wire.xml()
	}
	c.Add(g, &Case{
		Key:   key,
		Input: map[string]any{"key_descriptors": kds, "layout": layout, "cfg": in.cfg, "metadata_entity": in.md.Entity, "request_xml": reqXML, "session": in.sess},
		Obs:   obsJSON,
		Term: fmt.Sprintf("{| c6_cfg := %s; c6_md := %s; c6_certs := %s; c6_rq := %s; c6_sess := %s; c6_now := %s; c6_tnow := %s; c6_addr := %s; c6_relay := %s; c6_rnd := %s; c6_obs := %s |}",
			in.cfg.term(), in.md.term(), certTable(in.md), rqTerm(in.wire, in.issue), in.sess.term(), emitTime(in.now), emitTime(in.tnow), emitStr(in.addr), emitStr(in.relay),
			res.rnd.term(), obs),
		ImplSpecOK: specOK,
		Trivial:    len(kds) == 0,
	})
	if in.wire != nil && gsteps != nil {
		stepCase(c, gsteps, in, markers, map[string]string{"class": "step-api", "layout": key["layout"], "layout_class": key["layout_class"]},
			map[string]any{"key_descriptors": kds, "layout": layout})
	}
}

var c08StepSeqs = [][]int{{0, 1, 2}, {0, 2}, {1, 2}, {2, 2}, {0, 0, 1}, {1, 1, 2}, {2, 1, 0}, {0}, {2}}

// stepCase drives the step API the way a caller that only logs errors would:
// MakeAssertion, then a sequence of MakeAssertionEl / MakeResponse /
// WriteResponse calls on the same request object, each error ignored.
// After an error nothing of the session (markers, when given) may be left in the
// request object or emitted; a form may only be written to an HTTP-POST endpoint.
func stepCase(c *Ctx, g *Group, in c06Input, markers []string, key map[string]string, extraInput map[string]any) {
	steps := pick(c.Rng, c08StepSeqs)
	reg := &stubRegistry{entries: []mRegEntry{{ID: in.regKey, Kind: "found", MD: in.md}}}
	sess := in.sess.toSAML()
	idp := newIDP(in.cfg, reg, sess)
	sr, er := newStream(c.Rng, 160), newStream(c.Rng, 512)
	oldS, oldE := saml.RandReader, xmlenc.RandReader
	saml.RandReader, xmlenc.RandReader = sr, er
	defer func() { saml.RandReader, xmlenc.RandReader = oldS, oldE }()
	var results []int
	var emitted [][]byte
	var problems []string
	aelSet, respSet, started := false, false, false
	binding := ""
	wrote := false
	withGlobals(in.cfg, in.now, func() {
		hr := httpRequest(in.method, in.cfg.SSOURL, encodeFor(in.method, []byte(in.wire.xml())), in.relay)
		hr.RemoteAddr = in.addr
		req, err := saml.NewIdpAuthnRequest(idp, hr)
		if err == nil {
			err = req.Validate()
		}
		if err == nil {
			saml.TimeNow = func() time.Time { return in.tnow }
			err = (saml.DefaultAssertionMaker{}).MakeAssertion(req, sess)
		}
		if err != nil {
			return
		}
		started = true
		binding = req.ACSEndpoint.Binding
		for _, st := range steps {
			res := func() (r int) {
				defer func() {
					if p := recover(); p != nil {
						r = 2
						problems = append(problems, fmt.Sprintf("panic in step %d: %v", st, p))
					}
				}()
				var e error
				switch st {
				case 0:
					e = req.MakeAssertionEl()
				case 1:
					e = req.MakeResponse()
				default:
					rec := httptest.NewRecorder()
					e = req.WriteResponse(rec)
					body := rec.Body.Bytes()
					emitted = append(emitted, body)
					if e == nil || len(body) > 0 {
						wrote = true
					}
					if m := respValRe.FindSubmatch(body); m != nil {
						if x, err := base64.StdEncoding.DecodeString(html.UnescapeString(string(m[1]))); err == nil {
							emitted = append(emitted, x)
						}
					}
				}
				if e != nil {
					return 1
				}
				return 0
			}()
			results = append(results, res)
		}
		aelSet, respSet = req.AssertionEl != nil, req.ResponseEl != nil
		for _, el := range []*etree.Element{req.AssertionEl, req.ResponseEl} {
			if el != nil {
				doc := etree.NewDocument()
				doc.SetRoot(el.Copy())
				if b, err := doc.WriteToBytes(); err == nil {
					emitted = append(emitted, b)
				}
			}
		}
	})
	if !started {
		return
	}
	anyErr := false
	for _, r := range results {
		if r != 0 {
			anyErr = true
		}
	}
	var leaked []string
	for _, b := range emitted {
		leaked = append(leaked, scanMarkers(b, markers)...)
	}
	if wrote && binding != saml.HTTPPostBinding {
		problems = append(problems, "a POST form was written for an endpoint registered with binding "+binding)
	}
	if anyErr && markers != nil {
		if aelSet {
			problems = append(problems, "req.AssertionEl is set after a failed step")
		}
		if respSet {
			problems = append(problems, "req.ResponseEl is set after a failed step")
		}
		if len(leaked) > 0 {
			problems = append(problems, fmt.Sprintf("session markers in the request object or in emitted bytes after a failed step: %v", leaked[:1]))
		}
	}
	var specOK *bool
	if len(problems) > 0 {
		specOK = Bptr(false)
	}
	key["steps"], key["any_error"], key["binding"] = fmt.Sprint(steps), fmt.Sprint(anyErr), binding
	c.Count("steps/" + fmt.Sprint(steps))
	c.Count("steps_any_error/" + fmt.Sprint(anyErr))
	rnd := mRands{Saml: sr.stream[:48], Enc: er.stream[:96], WrapN: 20}
	zs := func(l []int) string {
		var it []string
		for _, x := range l {
			it = append(it, fmt.Sprint(x))
		}
		return "[" + strings.Join(it, "; ") + "]"
	}
	c.Add(g, &Case{
		Key:   key,
		Input: map[string]any{"setup": extraInput, "metadata": in.md, "steps (0 MakeAssertionEl, 1 MakeResponse, 2 WriteResponse)": steps, "request_xml": in.wire.xml(), "session": in.sess},
		Obs:   map[string]any{"results (0 ok, 1 error, 2 panic)": results, "AssertionEl_set": aelSet, "ResponseEl_set": respSet, "problems": problems},
		Term: fmt.Sprintf("{| s8_base := {| c6_cfg := %s; c6_md := %s; c6_certs := %s; c6_rq := %s; c6_sess := %s; c6_now := %s; c6_tnow := %s; c6_addr := %s; c6_relay := %s; c6_rnd := %s; c6_obs := O6Err |}; s8_steps := %s; s8_results := %s; s8_ael_set := %s; s8_resp_set := %s |}",
			in.cfg.term(), in.md.term(), certTable(in.md), rqTerm(in.wire, in.issue), in.sess.term(), emitTime(in.now), emitTime(in.tnow), emitStr(in.addr), emitStr(in.relay),
			rnd.term(), zs(steps), zs(results), emitBool(aelSet), emitBool(respSet)),
		ImplSpecOK: specOK,
	})
}

func drawSizes(d [][]byte) []int {
	var out []int
	for _, x := range d {
		out = append(out, len(x))
	}
	return out
}

// c08Fresh: two responses for the same session under the real crypto/rand must
// differ in content key, IV and both Ids.
func c08Fresh(c *Ctx, g *Group) {
	kds := []mKeyDesc{{Use: "encryption", Certs: []string{fix.CertB64("rsa_b")}}}
	in, _ := genInput06(c.Rng, func(*mrand.Rand) []mKeyDesc { return kds })
	in.cfg.Method, in.cfg.Signer, in.cfg.SignerKind = "", nil, ""
	for i := range in.md.Descs {
		for j := range in.md.Descs[i].ACS {
			in.md.Descs[i].ACS[j].Binding = bPost
		}
	}
	var encs []*mEnc
	for k := 0; k < 2; k++ {
		res := runResponseRealRand(c, in)
		if res.kind == "form" && res.form.Err == nil && res.form.Resp.Enc != nil {
			encs = append(encs, res.form.Resp.Enc)
		}
	}
	ok := len(encs) == 2 && !bytes.Equal(encs[0].Key, encs[1].Key) && !bytes.Equal(encs[0].IV, encs[1].IV) &&
		!bytes.Equal(encs[0].KeyID, encs[1].KeyID) && !bytes.Equal(encs[0].DataID, encs[1].DataID) && !bytes.Equal(encs[0].Key, encs[0].IV)
	note := ""
	if len(encs) != 2 {
		note = "could not produce two encrypted responses"
	}
	c.Count("fresh/" + fmt.Sprint(ok))
	c.Add(g, &Case{Key: map[string]string{"class": "fresh-under-crypto-rand"}, Input: map[string]any{"flow": "two responses, same session, crypto/rand"},
		Obs: map[string]any{"distinct_key_iv_ids": ok, "note": note}, Term: emitBool(ok), Dedup: fmt.Sprint(c.N)})
}

func runResponseRealRand(c *Ctx, in c06Input) c06Result {
	// runResponse installs recording readers; wrap it with the real source instead
	res := runResponseWith(c, in, rand.Reader)
	return res
}

func runC08(c *Ctx) {
	// several groups so that the large case terms evaluate in parallel
	var gs []*Group
	for i := 0; i < 8; i++ {
		gs = append(gs, c.Group(fmt.Sprintf("kd%d", i), []string{"IdPModel"}, "c06case", "check_c08"))
	}
	gf := c.Group("fresh", nil, "bool", "check_bools")
	choices := c08CertChoices()
	i := 0
	var gst []*Group
	for k := 0; k < 4; k++ {
		gst = append(gst, c.Group(fmt.Sprintf("steps%d", k), []string{"IdPModel"}, "c08scase", "check_c08s"))
	}
	add := func(kds []mKeyDesc, layout string) {
		c08One(c, gs[i%len(gs)], gst[i%len(gst)], kds, layout, i)
		i++
	}
	// systematic: every single descriptor (use x certificate), then every ordered pair of a decisive first with a usable second
	for _, use := range c08Uses {
		for _, ch := range choices {
			k := mKeyDesc{Use: use}
			if ch.data != nil {
				k.Certs = []string{*ch.data}
			}
			add([]mKeyDesc{k}, fmt.Sprintf("use=%q:%s", use, ch.class))
		}
	}
	good := mKeyDesc{Use: "encryption", Certs: []string{fix.CertB64("rsa_c")}}
	goodUnspec := mKeyDesc{Use: "", Certs: []string{fix.CertB64("rsa_c")}}
	signing := mKeyDesc{Use: "signing", Certs: []string{fix.CertB64("rsa_b")}}
	for _, ch := range choices {
		k := mKeyDesc{Use: "encryption"}
		if ch.data != nil {
			k.Certs = []string{*ch.data}
		}
		add([]mKeyDesc{signing, k}, "signing | encryption:"+ch.class)
		add([]mKeyDesc{k, good}, "encryption:"+ch.class+" | encryption:rsa-c")
		add([]mKeyDesc{k, goodUnspec}, "encryption:"+ch.class+" | use-omitted:rsa-c")
		add([]mKeyDesc{goodUnspec, k}, "use-omitted:rsa-c | encryption:"+ch.class)
		u := mKeyDesc{Use: "", Certs: k.Certs}
		add([]mKeyDesc{signing, u}, "signing | use-omitted:"+ch.class)
		add([]mKeyDesc{u, goodUnspec}, "use-omitted:"+ch.class+" | use-omitted:rsa-c")
	}
	n := 200
	if c.Thorough() {
		n = 5000
	}
	for k := 0; k < n; k++ {
		kds, layout := genKDLayout(c.Rng, choices)
		add(kds, layout)
	}
	// histories on one long-lived IdentityProvider / registry
	gh := []*Group{c.Group("hist0", []string{"IdPModel"}, "c06case", "check_c08"), c.Group("hist1", []string{"IdPModel"}, "c06case", "check_c08")}
	hn := 0
	rounds := 2
	if c.Thorough() {
		rounds = 20
	}
	runHistories(c, func(in c06Input, kds []mKeyDesc, markers []string, key map[string]string) {
		key["layout"], key["layout_class"] = "history", "other"
		c08EmitPrepared(c, gh[hn%2], nil, in, kds, "history", markers, key)
		hn++
	}, rounds)
	for k := 0; k < 5; k++ {
		c08Fresh(c, gf)
	}
	c08SPSide(c)
}

var _ = saml.HTTPPostBinding
var _ = xmlenc.RandReader
