// vhidp — correspondence harness for the Identity-Provider properties (C05–C08).
package main

import . "verifharness/internal/core"

func main() { Main() }
