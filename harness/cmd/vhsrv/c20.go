package main

// C20 — the bundled IdP server and its store under concurrent requests.
//
// The proof side is the translator obligation (coq/gen/SamlidpLocks.v:
// discipline_ok on the program regenerated from the source) together with
// Concurrency.discipline_sound.  This file is the search / correspondence side:
//   (1) free-running stress of 2..8 goroutines over every handler of a real
//       samlidp.Server and over the store, with a liveness watchdog;
//   (2) recorded invoke/return histories of concurrent store operations on a
//       fresh zero-value MemoryStore, checked against the sequential map
//       specification (Wing-Gong search);
//   (3) the same two workloads under the race detector (build/vhsrv_race*,
//       built by the pre hook translator/build_race.sh);
//   (4) sequential store histories evaluated against the Gallina map
//       specification (Concurrency.sm_apply) inside coqc.
// (1)-(3) run in child processes: a store without its lock makes the Go
// runtime throw "concurrent map read and map write", which cannot be recovered.

import (
	. "verifharness/internal/core"

	"bytes"
	"crypto/sha1"
	"encoding/hex"
	"encoding/json"
	"encoding/xml"
	"fmt"
	"math/rand"
	"net/url"
	"os"
	"os/exec"
	"path/filepath"
	"regexp"
	"runtime"
	"sort"
	"strings"
	"sync"
	"sync/atomic"
	"time"

	"github.com/crewjam/saml"
	"github.com/crewjam/saml/samlidp"

	"verifharness/internal/emit"
)

func init() {
	Props["C20"] = runC20
	Props["C20child"] = runC20Child
}

// ---------------------------------------------------------------------------
// child side

type stressResult struct {
	Mode      string         `json:"mode"`
	Deadlock  bool           `json:"deadlock"`
	Dump      string         `json:"dump,omitempty"`
	Stuck     []string       `json:"stuck_requests,omitempty"`
	Ops       map[string]int `json:"ops"`
	Total     int            `json:"total"`
	Rounds    int            `json:"rounds"`
	Workers   map[string]int `json:"workers"`
	Panics    []string       `json:"panics,omitempty"`
	Histories int            `json:"histories,omitempty"`
	HistOps   int            `json:"history_ops,omitempty"`
	NonLin    string         `json:"non_linearizable,omitempty"`
	Hung      bool           `json:"store_hung,omitempty"`
	Overlap   int            `json:"histories_with_overlap,omitempty"`
	Problems  []string       `json:"problems,omitempty"`
}

func envDur(name string, def time.Duration) time.Duration {
	if v := os.Getenv(name); v != "" {
		if d, err := time.ParseDuration(v); err == nil {
			return d
		}
	}
	return def
}

func runC20Child(c *Ctx) {
	mode := os.Getenv("C20_MODE")
	dur := envDur("C20_DUR", 3*time.Second)
	var res stressResult
	switch mode {
	case "stress":
		res = stressServer(c.Seed, dur, os.Getenv("C20_NOBCRYPT") == "1")
	case "lin":
		res = linHistories(c.Seed, dur)
	case "first":
		res = firstRequests(c.Seed, dur)
	case "startup":
		res = startups(c.Seed, dur)
	default:
		fmt.Fprintln(os.Stderr, "C20child: unknown mode")
		os.Exit(2)
	}
	res.Mode = mode
	b, _ := json.Marshal(res)
	if err := os.WriteFile(filepath.Join(c.Out, "result.json"), b, 0o644); err != nil {
		fmt.Fprintln(os.Stderr, err)
		os.Exit(2)
	}
}

const watchdog = 10 * time.Second   // a whole round of first requests / a store history does not finish => deadlock
const reqDeadline = 6 * time.Second // a single request in flight for this long => hung, even while others progress

type stressEnv struct {
	srv      *samlidp.Server
	store    *samlidp.MemoryStore
	cookie   string
	now      time.Time
	nobcrypt bool
}

func mustStatus(rec *recorder, p any, want int, what string) {
	if p != nil || rec.status() != want {
		fmt.Fprintf(os.Stderr, "C20child: setup %s: status %d panic %v body %q\n", what, rec.status(), p, rec.body.String())
		os.Exit(2)
	}
}

func entityOf(k int) string { return fmt.Sprintf("https://sp%d.example.com/metadata", k) }
func acsOf(k int) string    { return fmt.Sprintf("https://sp%d.example.com/acs", k) }

func newStressEnv(nobcrypt bool) *stressEnv {
	st := &samlidp.MemoryStore{}
	srv, err := newServer(st)
	if err != nil {
		fmt.Fprintln(os.Stderr, "C20child: New:", err)
		os.Exit(2)
	}
	e := &stressEnv{srv: srv, store: st, now: time.Now(), nobcrypt: nobcrypt}
	var rec *recorder
	var p any
	if !nobcrypt {
		rec, p = serve(srv, reqSpec{method: "PUT", path: "/users/alice", body: `{"name":"alice","password":"pw1","email":"alice@example.com","groups":["g"]}`})
		mustStatus(rec, p, 204, "put user")
	}
	rec, p = serve(srv, reqSpec{method: "PUT", path: "/services/sp1", body: spMetadataXML(entityOf(1), []string{acsOf(1)})})
	mustStatus(rec, p, 204, "put service")
	rec, p = serve(srv, reqSpec{method: "PUT", path: "/shortcuts/sc", body: `{"service_provider":"` + entityOf(1) + `"}`})
	mustStatus(rec, p, 204, "put shortcut")
	if nobcrypt {
		// under the race detector bcrypt is very slow: store the user and a live session directly
		_ = st.Put("/users/alice", samlidp.User{Name: "alice", Email: "alice@example.com", Groups: []string{"g"}})
		_ = st.Put("/sessions/sess1", &saml.Session{ID: "sess1", CreateTime: e.now, ExpireTime: e.now.Add(time.Hour), Index: "i1",
			NameID: "alice@example.com", UserName: "alice", UserEmail: "alice@example.com", Groups: []string{"g"}})
		e.cookie = "sess1"
		return e
	}
	rec, p = serve(srv, reqSpec{method: "POST", path: "/login", form: url.Values{"user": {"alice"}, "password": {"pw1"}}})
	mustStatus(rec, p, 200, "login")
	ck, ok := rec.setCookie("session")
	if !ok {
		fmt.Fprintln(os.Stderr, "C20child: login set no cookie")
		os.Exit(2)
	}
	e.cookie = ck
	return e
}

type stressOp struct {
	name   string
	weight int
	run    func(e *stressEnv, r *rand.Rand) (*recorder, any)
}

func stressOps() []stressOp {
	hs := func(q func(e *stressEnv, r *rand.Rand) reqSpec) func(e *stressEnv, r *rand.Rand) (*recorder, any) {
		return func(e *stressEnv, r *rand.Rand) (*recorder, any) { return serve(e.srv, q(e, r)) }
	}
	storeOp := func(f func(st *samlidp.MemoryStore, r *rand.Rand)) func(e *stressEnv, r *rand.Rand) (*recorder, any) {
		return func(e *stressEnv, r *rand.Rand) (rec *recorder, p any) {
			defer func() {
				if x := recover(); x != nil {
					p = x
				}
			}()
			f(e.store, r)
			return nil, nil
		}
	}
	key := func(r *rand.Rand) string { return fmt.Sprintf("/x/k%d", r.Intn(3)) }
	return []stressOp{
		{"GET /login/{shortcut} +cookie", 20, hs(func(e *stressEnv, r *rand.Rand) reqSpec {
			return reqSpec{method: "GET", path: "/login/sc", cookie: e.cookie}
		})},
		{"GET /login/{shortcut}/{suffix} +cookie", 4, hs(func(e *stressEnv, r *rand.Rand) reqSpec {
			return reqSpec{method: "GET", path: "/login/sc/x", cookie: e.cookie}
		})},
		{"GET /login/{shortcut} no cookie", 2, hs(func(e *stressEnv, r *rand.Rand) reqSpec {
			return reqSpec{method: "GET", path: "/login/sc"}
		})},
		{"POST /sso +cookie", 16, hs(func(e *stressEnv, r *rand.Rand) reqSpec {
			k := 1 + r.Intn(3)
			return reqSpec{method: "POST", path: "/sso", cookie: e.cookie,
				form: url.Values{"SAMLRequest": {authnRequestB64(entityOf(k), acsOf(k), "id-1", e.now)}}}
		})},
		{"POST /sso no cookie", 2, hs(func(e *stressEnv, r *rand.Rand) reqSpec {
			return reqSpec{method: "POST", path: "/sso",
				form: url.Values{"SAMLRequest": {authnRequestB64(entityOf(1), acsOf(1), "id-1", e.now)}}}
		})},
		{"PUT /services/{id}", 12, hs(func(e *stressEnv, r *rand.Rand) reqSpec {
			k := 1 + r.Intn(3)
			return reqSpec{method: "PUT", path: fmt.Sprintf("/services/sp%d", k), body: spMetadataXML(entityOf(k), []string{acsOf(k)})}
		})},
		{"POST /services/{id}", 2, hs(func(e *stressEnv, r *rand.Rand) reqSpec {
			return reqSpec{method: "POST", path: "/services/sp3", body: spMetadataXML(entityOf(3), []string{acsOf(3)})}
		})},
		{"PUT /services/{id} (replace: same or other entity ID)", 8, hs(func(e *stressEnv, r *rand.Rand) reqSpec {
			k := 2 + r.Intn(2)
			ent := entityOf(k + 3*r.Intn(2)) // the stored service of this id may have either entity ID
			return reqSpec{method: "PUT", path: fmt.Sprintf("/services/sp%d", k), body: spMetadataXML(ent, []string{acsOf(k)})}
		})},
		{"DELETE /services/{id}", 5, hs(func(e *stressEnv, r *rand.Rand) reqSpec {
			return reqSpec{method: "DELETE", path: fmt.Sprintf("/services/sp%d", 2+r.Intn(2))}
		})},
		{"GET /services/", 6, hs(func(e *stressEnv, r *rand.Rand) reqSpec { return reqSpec{method: "GET", path: "/services/"} })},
		{"GET /services/{id}", 3, hs(func(e *stressEnv, r *rand.Rand) reqSpec { return reqSpec{method: "GET", path: "/services/sp1"} })},
		{"GET /metadata", 4, hs(func(e *stressEnv, r *rand.Rand) reqSpec { return reqSpec{method: "GET", path: "/metadata"} })},
		{"PUT /shortcuts/{id}", 4, hs(func(e *stressEnv, r *rand.Rand) reqSpec {
			return reqSpec{method: "PUT", path: "/shortcuts/tmp", body: `{"service_provider":"` + entityOf(2) + `","url_suffix_as_relay_state":true}`}
		})},
		{"PUT /shortcuts/{id} (replace)", 3, hs(func(e *stressEnv, r *rand.Rand) reqSpec {
			return reqSpec{method: "PUT", path: "/shortcuts/tmp", body: `{"service_provider":"` + entityOf(1+r.Intn(3)) + `","relay_state":"rs"}`}
		})},
		{"GET /shortcuts/{id}", 3, hs(func(e *stressEnv, r *rand.Rand) reqSpec { return reqSpec{method: "GET", path: "/shortcuts/sc"} })},
		{"GET /shortcuts/", 3, hs(func(e *stressEnv, r *rand.Rand) reqSpec { return reqSpec{method: "GET", path: "/shortcuts/"} })},
		{"DELETE /shortcuts/{id}", 1, hs(func(e *stressEnv, r *rand.Rand) reqSpec { return reqSpec{method: "DELETE", path: "/shortcuts/tmp"} })},
		{"PUT /users/{id} (no password)", 3, hs(func(e *stressEnv, r *rand.Rand) reqSpec {
			return reqSpec{method: "PUT", path: "/users/bob", body: `{"name":"bob","email":"bob@example.com"}`}
		})},
		{"GET /users/{id}", 3, hs(func(e *stressEnv, r *rand.Rand) reqSpec { return reqSpec{method: "GET", path: "/users/alice"} })},
		{"GET /users/", 3, hs(func(e *stressEnv, r *rand.Rand) reqSpec { return reqSpec{method: "GET", path: "/users/"} })},
		{"DELETE /users/{id}", 1, hs(func(e *stressEnv, r *rand.Rand) reqSpec { return reqSpec{method: "DELETE", path: "/users/bob"} })},
		{"GET /sessions/", 3, hs(func(e *stressEnv, r *rand.Rand) reqSpec { return reqSpec{method: "GET", path: "/sessions/"} })},
		{"GET /sessions/{id}", 2, hs(func(e *stressEnv, r *rand.Rand) reqSpec {
			return reqSpec{method: "GET", path: "/sessions/" + url.PathEscape(e.cookie)}
		})},
		{"DELETE /sessions/{id}", 1, hs(func(e *stressEnv, r *rand.Rand) reqSpec { return reqSpec{method: "DELETE", path: "/sessions/none"} })},
		{"POST /login (wrong password)", 1, func(e *stressEnv, r *rand.Rand) (*recorder, any) {
			if e.nobcrypt {
				return serve(e.srv, reqSpec{method: "POST", path: "/login", form: url.Values{"user": {"nobody"}, "password": {"x"}}})
			}
			return serve(e.srv, reqSpec{method: "POST", path: "/login", form: url.Values{"user": {"alice"}, "password": {"wrong"}}})
		}},
		{"Store.Put", 4, storeOp(func(st *samlidp.MemoryStore, r *rand.Rand) { _ = st.Put(key(r), "v") })},
		{"Store.Put (value that cannot be marshalled)", 1, storeOp(func(st *samlidp.MemoryStore, r *rand.Rand) { _ = st.Put(key(r), make(chan int)) })},
		{"PUT /services/{id} (metadata that cannot be stored: validUntil +24:00)", 2, hs(func(e *stressEnv, r *rand.Rand) reqSpec {
			return reqSpec{method: "PUT", path: "/services/sp3", body: unstorableMetadataXML(entityOf(3), acsOf(3))}
		})},
		{"Store.Get", 4, storeOp(func(st *samlidp.MemoryStore, r *rand.Rand) { var v string; _ = st.Get(key(r), &v) })},
		{"Store.Delete", 2, storeOp(func(st *samlidp.MemoryStore, r *rand.Rand) { _ = st.Delete(key(r)) })},
		{"Store.List", 4, storeOp(func(st *samlidp.MemoryStore, r *rand.Rand) { _, _ = st.List("/") })},
	}
}

var reGoroutineSep = regexp.MustCompile(`\n\n`)

func stuckDump() string {
	buf := make([]byte, 4<<20)
	n := runtime.Stack(buf, true)
	var keep []string
	for _, g := range reGoroutineSep.Split(string(buf[:n]), -1) {
		if strings.Contains(g, "samlidp.") && (strings.Contains(g, "sync.(*RWMutex)") || strings.Contains(g, "sync.(*Mutex)") || strings.Contains(g, "semacquire")) {
			if len(g) > 1500 {
				g = g[:1500] + "\n\t..."
			}
			keep = append(keep, g)
		}
		if len(keep) >= 4 {
			break
		}
	}
	return strings.Join(keep, "\n\n")
}

// timedServe runs one request with the per-request deadline; hung = it did not return
func timedServe(e *stressEnv, q reqSpec) (hung bool, panicked any) {
	_, p, h := serveDeadline(e.srv, q, reqDeadline)
	return h, p
}

type seqStep struct {
	name string
	q    reqSpec
}

// keySequences: state-dependent handler paths, one key at a time: create, replace
// with the same / another entity ID, read, use, delete, delete again (missing);
// user with / without password; shortcut create / replace / launch / delete.
func keySequences(e *stressEnv, withBcrypt bool) []seqStep {
	md := func(ent int) string { return spMetadataXML(entityOf(ent), []string{acsOf(ent)}) }
	sso := func(ent int) reqSpec {
		return reqSpec{method: "POST", path: "/sso", cookie: e.cookie,
			form: url.Values{"SAMLRequest": {authnRequestB64(entityOf(ent), acsOf(ent), "id-seq", e.now)}}}
	}
	steps := []seqStep{
		{"seq PUT /services/{id} (new)", reqSpec{method: "PUT", path: "/services/sq", body: md(7)}},
		{"seq PUT /services/{id} (replace, other entity ID)", reqSpec{method: "PUT", path: "/services/sq", body: md(8)}},
		{"seq PUT /services/{id} (replace, same entity ID)", reqSpec{method: "PUT", path: "/services/sq", body: md(8)}},
		{"seq PUT /services/{id} (metadata that cannot be stored)", reqSpec{method: "PUT", path: "/services/sq", body: unstorableMetadataXML(entityOf(8), acsOf(8))}},
		{"seq GET /services/{id}", reqSpec{method: "GET", path: "/services/sq"}},
		{"seq POST /sso for the replaced entity ID", sso(7)},
		{"seq POST /sso for the new entity ID", sso(8)},
		{"seq GET /metadata", reqSpec{method: "GET", path: "/metadata"}},
		{"seq DELETE /services/{id} (existing)", reqSpec{method: "DELETE", path: "/services/sq"}},
		{"seq DELETE /services/{id} (missing)", reqSpec{method: "DELETE", path: "/services/sq"}},
		{"seq POST /sso after delete", sso(8)},
		{"seq PUT /users/{id} (new, no password)", reqSpec{method: "PUT", path: "/users/sq", body: `{"name":"sq","email":"sq@example.com"}`}},
		{"seq PUT /users/{id} (existing, no password)", reqSpec{method: "PUT", path: "/users/sq", body: `{"name":"sq","email":"sq2@example.com"}`}},
	}
	if withBcrypt {
		steps = append(steps,
			seqStep{"seq PUT /users/{id} (existing, with password)", reqSpec{method: "PUT", path: "/users/sq", body: `{"name":"sq","password":"pwq"}`}},
			seqStep{"seq PUT /users/{id} (password retained)", reqSpec{method: "PUT", path: "/users/sq", body: `{"name":"sq","email":"sq3@example.com"}`}},
			seqStep{"seq POST /login (right password)", reqSpec{method: "POST", path: "/login", form: url.Values{"user": {"sq"}, "password": {"pwq"}}}})
	}
	steps = append(steps,
		seqStep{"seq GET /users/{id}", reqSpec{method: "GET", path: "/users/sq"}},
		seqStep{"seq DELETE /users/{id} (existing)", reqSpec{method: "DELETE", path: "/users/sq"}},
		seqStep{"seq DELETE /users/{id} (missing)", reqSpec{method: "DELETE", path: "/users/sq"}},
		seqStep{"seq GET /users/{id} (missing)", reqSpec{method: "GET", path: "/users/sq"}},
		seqStep{"seq PUT /shortcuts/{id} (new)", reqSpec{method: "PUT", path: "/shortcuts/sq", body: `{"service_provider":"` + entityOf(1) + `"}`}},
		seqStep{"seq GET /login/{shortcut} +cookie", reqSpec{method: "GET", path: "/login/sq", cookie: e.cookie}},
		seqStep{"seq PUT /shortcuts/{id} (replace)", reqSpec{method: "PUT", path: "/shortcuts/sq", body: `{"service_provider":"` + entityOf(9) + `","url_suffix_as_relay_state":true}`}},
		seqStep{"seq GET /login/{shortcut}/{suffix} +cookie (unregistered target)", reqSpec{method: "GET", path: "/login/sq/x", cookie: e.cookie}},
		seqStep{"seq DELETE /shortcuts/{id} (existing)", reqSpec{method: "DELETE", path: "/shortcuts/sq"}},
		seqStep{"seq DELETE /shortcuts/{id} (missing)", reqSpec{method: "DELETE", path: "/shortcuts/sq"}},
		seqStep{"seq GET /login/{shortcut} (missing shortcut)", reqSpec{method: "GET", path: "/login/sq", cookie: e.cookie}},
		seqStep{"seq DELETE /sessions/{id} (missing)", reqSpec{method: "DELETE", path: "/sessions/none"}},
		seqStep{"seq GET /sessions/{id} (missing)", reqSpec{method: "GET", path: "/sessions/none"}})
	return steps
}

func stressServer(seed int64, dur time.Duration, nobcrypt bool) stressResult {
	res := stressResult{Ops: map[string]int{}, Workers: map[string]int{}}
	ops := stressOps()
	totalW := 0
	for _, o := range ops {
		totalW += o.weight
	}
	deadline := time.Now().Add(dur)
	var mu sync.Mutex // protects res.Ops / res.Panics (harness state only)
	for round := 0; time.Now().Before(deadline); round++ {
		e := newStressEnv(nobcrypt)
		// state-dependent paths first, one request at a time, each with its own deadline
		for _, st := range keySequences(e, !nobcrypt && round%3 == 0) {
			hung, p := timedServe(e, st.q)
			res.Ops[st.name]++
			res.Total++
			if p != nil && len(res.Panics) < 5 {
				res.Panics = append(res.Panics, fmt.Sprintf("%s: panic: %v", st.name, p))
			}
			if hung {
				res.Deadlock = true
				res.Dump = stuckDump()
				res.Stuck = []string{st.name + " (sequential, no other request in flight; did not return within " + reqDeadline.String() + ")"}
				return res
			}
		}
		nw := 2 + round%7 // 2..8 goroutines
		res.Workers[fmt.Sprint(nw)]++
		res.Rounds++
		roundEnd := time.Now().Add(700 * time.Millisecond)
		var progress int64
		current := make([]atomic.Value, nw)
		started := make([]int64, nw)
		wgid := make([]atomic.Value, nw) // goroutine id of each worker (its requests run in it)
		var wg sync.WaitGroup
		done := make(chan struct{})
		start := make(chan struct{})
		for w := 0; w < nw; w++ {
			wg.Add(1)
			go func(w int) {
				defer wg.Done()
				wgid[w].Store(goroutineID())
				r := rand.New(rand.NewSource(seed*1000003 + int64(round)*101 + int64(w)))
				local := map[string]int{}
				var panics []string
				<-start
				for time.Now().Before(roundEnd) {
					x := r.Intn(totalW)
					var op stressOp
					for _, o := range ops {
						if x < o.weight {
							op = o
							break
						}
						x -= o.weight
					}
					current[w].Store(op.name)
					atomic.StoreInt64(&started[w], time.Now().UnixNano())
					_, p := op.run(e, r)
					atomic.StoreInt64(&started[w], 0)
					current[w].Store("")
					if p != nil && len(panics) < 3 {
						panics = append(panics, fmt.Sprintf("%s: panic: %v", op.name, p))
					}
					local[op.name]++
					atomic.AddInt64(&progress, 1)
				}
				mu.Lock()
				for k, v := range local {
					res.Ops[k] += v
					res.Total += v
				}
				res.Panics = append(res.Panics, panics...)
				mu.Unlock()
			}(w)
		}
		go func() { wg.Wait(); close(done) }()
		close(start)
		last, lastChange := int64(-1), time.Now()
		stuck := false
	watch:
		for {
			select {
			case <-done:
				break watch
			case <-time.After(100 * time.Millisecond):
				p := atomic.LoadInt64(&progress)
				if p != last {
					last, lastChange = p, time.Now()
				}
				// a request in flight beyond its deadline (a single one suffices, even while the others
				// progress), or no request completing anywhere for the watchdog time: a candidate.  It is
				// a hang only if those workers are BLOCKED on two samples one second apart (waitDone).
				overdue := func() []string {
					now := time.Now().UnixNano()
					noProgress := atomic.LoadInt64(&progress) == last && time.Since(lastChange) > watchdog
					var ids []string
					for w := 0; w < nw; w++ {
						if s0 := atomic.LoadInt64(&started[w]); s0 != 0 && (now-s0 > int64(reqDeadline) || noProgress) {
							if id, _ := wgid[w].Load().(string); id != "" {
								ids = append(ids, id)
							}
						}
					}
					return ids
				}
				if len(overdue()) > 0 {
					if confirmHung(done, overdue) {
						stuck = true
						break watch
					}
					last, lastChange = atomic.LoadInt64(&progress), time.Now()
				}
			}
		}
		if stuck {
			res.Deadlock = true
			res.Dump = stuckDump()
			now := time.Now().UnixNano()
			for w := 0; w < nw; w++ {
				if s, _ := current[w].Load().(string); s != "" {
					if s0 := atomic.LoadInt64(&started[w]); s0 != 0 {
						s += fmt.Sprintf(" (in flight for %.1fs)", float64(now-s0)/1e9)
					}
					res.Stuck = append(res.Stuck, s)
				}
			}
			sort.Strings(res.Stuck)
			return res // the wedged goroutines are abandoned
		}
	}
	return res
}

// ---- start-up over a pre-populated store ----
// samlidp.New reads every stored service and registers it: a restart or a second
// replica starts over a store that is not empty.  New must return (deadline) and
// the new server must answer SSO for every stored service.
func startups(seed int64, dur time.Duration) stressResult {
	res := stressResult{Ops: map[string]int{}, Workers: map[string]int{}}
	deadline := time.Now().Add(dur)
	now := time.Now()
	for round := 0; time.Now().Before(deadline) || round < 4; round++ {
		n := []int{0, 1, 2, 5}[round%4]
		st := &samlidp.MemoryStore{}
		_ = st.Put("/users/alice", samlidp.User{Name: "alice", Email: "alice@example.com"})
		_ = st.Put("/sessions/sess1", &saml.Session{ID: "sess1", CreateTime: now, ExpireTime: now.Add(time.Hour), Index: "i1",
			NameID: "alice@example.com", UserName: "alice", UserEmail: "alice@example.com"})
		for k := 1; k <= n; k++ {
			var md saml.EntityDescriptor
			if err := xml.Unmarshal([]byte(spMetadataXML(entityOf(k), []string{acsOf(k)})), &md); err != nil {
				fmt.Fprintln(os.Stderr, "C20child: metadata:", err)
				os.Exit(2)
			}
			_ = st.Put(fmt.Sprintf("/services/sp%d", k), &samlidp.Service{Name: fmt.Sprintf("sp%d", k), Metadata: md})
			_ = st.Put(fmt.Sprintf("/shortcuts/sc%d", k), &samlidp.Shortcut{Name: fmt.Sprintf("sc%d", k), ServiceProviderID: entityOf(k)})
		}
		keys, _ := st.List("/")
		sort.Strings(keys)
		what := fmt.Sprintf("samlidp.New over a store holding %d service(s) [keys: %s]", n, strings.Join(keys, " "))
		res.Workers[fmt.Sprintf("services=%d", n)]++
		res.Rounds++
		srv, err, hung, pn := startServer(st, round%8 >= 4)
		res.Ops["samlidp.New"]++
		res.Total++
		switch {
		case hung:
			res.Deadlock = true
			res.Dump = stuckDump()
			res.Stuck = []string{what + ": did not return within " + startupDeadline.String()}
			return res
		case pn != nil:
			res.Panics = append(res.Panics, fmt.Sprintf("%s: panic: %v", what, pn))
			return res
		case err != nil:
			res.Problems = append(res.Problems, fmt.Sprintf("%s: %v", what, err))
			return res
		}
		e := &stressEnv{srv: srv, store: st, now: now, nobcrypt: true, cookie: "sess1"}
		for k := 1; k <= n; k++ {
			hungReq, p := timedServe(e, reqSpec{method: "GET", path: "/metadata"})
			if hungReq || p != nil {
				res.Deadlock, res.Dump = hungReq, stuckDump()
				res.Stuck = []string{what + ": then GET /metadata did not return"}
				return res
			}
			rec, p2 := serve(srv, reqSpec{method: "POST", path: "/sso", cookie: "sess1",
				form: url.Values{"SAMLRequest": {authnRequestB64(entityOf(k), acsOf(k), "id-st", now)}}})
			res.Ops["POST /sso after start-up"]++
			res.Total++
			if p2 != nil {
				res.Panics = append(res.Panics, fmt.Sprintf("%s: SSO for sp%d panicked: %v", what, k, p2))
			} else if rec.status() != 200 || !strings.Contains(rec.body.String(), `name="SAMLResponse"`) {
				res.Problems = append(res.Problems, fmt.Sprintf("%s: SSO for stored service sp%d answered %d without an assertion", what, k, rec.status()))
			}
		}
		if len(res.Problems) > 0 || len(res.Panics) > 0 {
			return res
		}
	}
	return res
}

// ---- first requests on a fresh server ----
// Lazily initialised shared state only races on first use: every round builds a
// NEW server (over a store filled directly, or over a zero-value store) and fires
// the first requests concurrently, released together by a spin barrier:
//
//	all     one goroutine per handler (every handler's first request at once)
//	subset  2..8 goroutines with random handlers
//	same    2..8 goroutines all issuing the same request (e.g. the login form)
func freshEnv(empty bool) *stressEnv {
	st := &samlidp.MemoryStore{}
	now := time.Now()
	if !empty {
		_ = st.Put("/users/alice", samlidp.User{Name: "alice", Email: "alice@example.com", Groups: []string{"g"}})
		_ = st.Put("/sessions/sess1", &saml.Session{ID: "sess1", CreateTime: now, ExpireTime: now.Add(time.Hour), Index: "i1",
			NameID: "alice@example.com", UserName: "alice", UserEmail: "alice@example.com", Groups: []string{"g"}})
		var md saml.EntityDescriptor
		if err := xml.Unmarshal([]byte(spMetadataXML(entityOf(1), []string{acsOf(1)})), &md); err != nil {
			fmt.Fprintln(os.Stderr, "C20child: metadata:", err)
			os.Exit(2)
		}
		_ = st.Put("/services/sp1", &samlidp.Service{Name: "sp1", Metadata: md})
		_ = st.Put("/shortcuts/sc", &samlidp.Shortcut{Name: "sc", ServiceProviderID: entityOf(1)})
	}
	srv, err := newServer(st)
	if err != nil {
		fmt.Fprintln(os.Stderr, "C20child: New:", err)
		os.Exit(2)
	}
	return &stressEnv{srv: srv, store: st, now: now, nobcrypt: true, cookie: "sess1"}
}

func firstRequests(seed int64, dur time.Duration) stressResult {
	res := stressResult{Ops: map[string]int{}, Workers: map[string]int{}}
	ops := stressOps()
	r := rand.New(rand.NewSource(seed ^ 0xf1257))
	deadline := time.Now().Add(dur)
	for round := 0; time.Now().Before(deadline); round++ {
		e := freshEnv(round%4 == 3)
		var plan []stressOp
		kind := ""
		switch round % 3 {
		case 0:
			kind, plan = "all", append(plan, ops...)
		case 1:
			kind = "subset"
			for i, n := 0, 2+r.Intn(7); i < n; i++ {
				plan = append(plan, ops[r.Intn(len(ops))])
			}
		default:
			kind = "same"
			o := ops[r.Intn(len(ops))]
			for i, n := 0, 2+r.Intn(7); i < n; i++ {
				plan = append(plan, o)
			}
		}
		res.Workers[kind]++
		res.Rounds++
		nw := len(plan)
		var ready int32
		var progress int64
		gids := newGidSet()
		current := make([]atomic.Value, nw)
		panics := make([]string, nw)
		var wg sync.WaitGroup
		for w := 0; w < nw; w++ {
			wg.Add(1)
			go func(w int) {
				defer wg.Done()
				me := gids.enter()
				defer gids.leave(me)
				rr := rand.New(rand.NewSource(seed*7919 + int64(round)*131 + int64(w)))
				atomic.AddInt32(&ready, 1)
				for spin := 0; atomic.LoadInt32(&ready) < int32(nw); spin++ {
					if spin > 20000 {
						runtime.Gosched()
					}
				}
				current[w].Store(plan[w].name)
				if _, p := plan[w].run(e, rr); p != nil {
					panics[w] = fmt.Sprintf("%s: panic: %v", plan[w].name, p)
				}
				current[w].Store("")
				atomic.AddInt64(&progress, 1)
			}(w)
		}
		done := make(chan struct{})
		go func() { wg.Wait(); close(done) }()
		if waitDone(done, watchdog, gids.list) {
			res.Deadlock = true
			res.Dump = stuckDump()
			for w := 0; w < nw; w++ {
				if s, _ := current[w].Load().(string); s != "" {
					res.Stuck = append(res.Stuck, s)
				}
			}
			sort.Strings(res.Stuck)
			return res
		}
		for w := 0; w < nw; w++ {
			res.Ops[plan[w].name]++
			res.Total++
			if panics[w] != "" && len(res.Panics) < 5 {
				res.Panics = append(res.Panics, panics[w])
			}
		}
	}
	return res
}

// ---- concurrent store histories against the sequential map specification ----

type hop struct {
	Client   int      `json:"c"`
	Op       string   `json:"op"`
	Key      string   `json:"k,omitempty"`
	Val      string   `json:"v,omitempty"`
	Found    bool     `json:"found,omitempty"`
	Got      string   `json:"got,omitempty"`
	Keys     []string `json:"keys,omitempty"`
	Failed   bool     `json:"failed,omitempty"` // putbad: Put returned an error
	Inv, Ret int64
}

// keys as the server forms them (/<kind>/<name>), including names that contain another
// listing prefix after their start: List(prefix) is about keys that START with the prefix
var linKeys = []string{"/a/1", "/a/2", "/b/1", "/b/a/1", "/b/to/a/"}

func applySpec(state map[string]string, o hop) (bool, func()) {
	switch o.Op {
	case "get":
		v, ok := state[o.Key]
		return ok == o.Found && (!ok || v == o.Got), func() {}
	case "putbad": // a value that cannot be marshalled: an error, and the map is unchanged
		return o.Failed, func() {}
	case "put":
		old, had := state[o.Key]
		state[o.Key] = o.Val
		return true, func() {
			if had {
				state[o.Key] = old
			} else {
				delete(state, o.Key)
			}
		}
	case "del":
		old, had := state[o.Key]
		delete(state, o.Key)
		return true, func() {
			if had {
				state[o.Key] = old
			}
		}
	case "list":
		var want []string
		for k := range state {
			if strings.HasPrefix(k, o.Key) {
				want = append(want, strings.TrimPrefix(k, o.Key))
			}
		}
		sort.Strings(want)
		got := append([]string{}, o.Keys...)
		sort.Strings(got)
		return strings.Join(want, "\x00") == strings.Join(got, "\x00") && len(want) == len(got), func() {}
	}
	return false, func() {}
}

func stateKey(state map[string]string) string {
	ks := make([]string, 0, len(state))
	for k, v := range state {
		ks = append(ks, k+"="+v)
	}
	sort.Strings(ks)
	return strings.Join(ks, ";")
}

// linearizable: Wing-Gong search with memoisation on (linearized set, state).
func linearizable(h []hop) bool {
	n := len(h)
	state := map[string]string{}
	seen := map[string]bool{}
	var dfs func(mask uint64, cnt int) bool
	dfs = func(mask uint64, cnt int) bool {
		if cnt == n {
			return true
		}
		k := fmt.Sprintf("%x|%s", mask, stateKey(state))
		if seen[k] {
			return false
		}
		seen[k] = true
		// the earliest return among pending operations bounds which ones may go first
		minRet := int64(1) << 62
		for i := 0; i < n; i++ {
			if mask&(1<<uint(i)) == 0 && h[i].Ret < minRet {
				minRet = h[i].Ret
			}
		}
		for i := 0; i < n; i++ {
			if mask&(1<<uint(i)) != 0 || h[i].Inv > minRet {
				continue
			}
			ok, undo := applySpec(state, h[i])
			if ok && dfs(mask|1<<uint(i), cnt+1) {
				return true
			}
			undo()
		}
		return false
	}
	return dfs(0, 0)
}

func linHistories(seed int64, dur time.Duration) stressResult {
	res := stressResult{Ops: map[string]int{}, Workers: map[string]int{}}
	r := rand.New(rand.NewSource(seed ^ 0x5eed))
	deadline := time.Now().Add(dur)
	for time.Now().Before(deadline) {
		nc := 2 + r.Intn(3) // 2..4 clients
		firstPuts := r.Intn(2) == 0
		plans := make([][]hop, nc)
		for c := 0; c < nc; c++ {
			no := 1 + r.Intn(6)
			for i := 0; i < no; i++ {
				o := hop{Client: c, Key: linKeys[r.Intn(len(linKeys))]}
				switch x := r.Intn(10); {
				case i == 0 && firstPuts:
					o.Op, o.Key, o.Val = "put", linKeys[c%len(linKeys)], fmt.Sprintf("c%d", c)
				case x < 3:
					o.Op, o.Val = "put", fmt.Sprintf("c%d.%d", c, i)
				case x == 3 && r.Intn(2) == 0:
					o.Op = "putbad" // every operation after a failing Put must still complete
				case x < 6:
					o.Op = "get"
				case x < 8:
					o.Op = "del"
				default:
					o.Op, o.Key = "list", []string{"/", "/a/", "/a/", "/b/"}[r.Intn(4)]
				}
				plans[c] = append(plans[c], o)
			}
		}
		st := &samlidp.MemoryStore{} // zero value: first use is part of the history
		var clk int64
		var ready int32
		var wg sync.WaitGroup
		gids := newGidSet()
		do := func(o *hop) {
			o.Inv = atomic.AddInt64(&clk, 1)
			switch o.Op {
			case "get":
				var v string
				err := st.Get(o.Key, &v)
				o.Found, o.Got = err == nil, v
			case "put":
				_ = st.Put(o.Key, o.Val)
			case "putbad":
				o.Failed = st.Put(o.Key, make(chan int)) != nil
			case "del":
				_ = st.Delete(o.Key)
			case "list":
				o.Keys, _ = st.List(o.Key)
			}
			o.Ret = atomic.AddInt64(&clk, 1)
		}
		for c := 0; c < nc; c++ {
			wg.Add(1)
			go func(c int) {
				defer wg.Done()
				me := gids.enter()
				defer gids.leave(me)
				atomic.AddInt32(&ready, 1)
				for spin := 0; atomic.LoadInt32(&ready) < int32(nc); spin++ { // spin barrier: start together
					if spin > 100000 {
						runtime.Gosched()
					}
				}
				for i := range plans[c] {
					do(&plans[c][i])
				}
			}(c)
		}
		done := make(chan struct{})
		go func() { wg.Wait(); close(done) }()
		if waitDone(done, watchdog, gids.list) {
			res.Hung = true
			res.Dump = stuckDump()
			return res
		}
		var h []hop
		for c := range plans {
			h = append(h, plans[c]...)
		}
		// audit reads after every client returned
		for _, k := range linKeys {
			o := hop{Client: -1, Op: "get", Key: k}
			do(&o)
			h = append(h, o)
		}
		o := hop{Client: -1, Op: "list", Key: "/"}
		do(&o)
		h = append(h, o)
		res.Histories++
		res.HistOps += len(h)
		res.Workers[fmt.Sprint(nc)]++
		overlap := false
		for i := range h {
			res.Ops["store "+h[i].Op]++
			for j := range h {
				if h[i].Client != h[j].Client && h[i].Inv < h[j].Ret && h[j].Inv < h[i].Ret {
					overlap = true
				}
			}
		}
		if overlap {
			res.Overlap++
		}
		if !linearizable(h) {
			sort.Slice(h, func(i, j int) bool { return h[i].Inv < h[j].Inv })
			b, _ := json.Marshal(h)
			res.NonLin = string(b)
			return res
		}
	}
	return res
}

// ---------------------------------------------------------------------------
// parent side

func srvTmp() string {
	_ = os.MkdirAll("/tmp/srv", 0o755)
	return "/tmp/srv"
}

func altTag() string {
	repo := os.Getenv("VERIF_REPO")
	if repo == "" || repo == "/repo" {
		return ""
	}
	s := sha1.Sum([]byte(repo))
	return hex.EncodeToString(s[:])[:8]
}

type childOut struct {
	res    *stressResult
	stderr string
	err    error
	wall   time.Duration
}

func runChild(bin, mode string, seed int64, dur time.Duration, extraEnv ...string) childOut {
	dir, err := os.MkdirTemp(srvTmp(), "c20-")
	if err != nil {
		return childOut{err: err}
	}
	defer os.RemoveAll(dir)
	cmd := exec.Command(bin, "C20child", "-seed", fmt.Sprint(seed), "-out", dir)
	cmd.Env = append(os.Environ(), "C20_MODE="+mode, "C20_DUR="+dur.String())
	cmd.Env = append(cmd.Env, extraEnv...)
	var eb bytes.Buffer
	cmd.Stderr = &eb
	cmd.Stdout = &eb
	t0 := time.Now()
	// generous overall limit: the child's own watchdog reports a deadlock well before this
	timer := time.AfterFunc(dur+6*watchdog+2*time.Minute, func() { _ = cmd.Process.Kill() })
	err = cmd.Run()
	timer.Stop()
	out := childOut{stderr: eb.String(), err: err, wall: time.Since(t0)}
	if b, e := os.ReadFile(filepath.Join(dir, "result.json")); e == nil {
		var r stressResult
		if json.Unmarshal(b, &r) == nil {
			out.res = &r
		}
	}
	return out
}

var reRace = regexp.MustCompile(`(?s)WARNING: DATA RACE.*?==================`)

// raceReports returns the race reports that involve crewjam/saml code.
func raceReports(stderr string) (inLib []string, other int) {
	for _, m := range reRace.FindAllString(stderr, -1) {
		if strings.Contains(m, "github.com/crewjam/saml") {
			inLib = append(inLib, m)
		} else {
			other++
		}
	}
	return
}

func tail(s string, n int) string {
	if len(s) > n {
		return "..." + s[len(s)-n:]
	}
	return s
}

func runC20(c *Ctx) {
	c20Sequential(c)

	g := c.Group("c20run", []string{"Concurrency"}, "bool", "check_bools")
	exe, err := os.Executable()
	if err != nil {
		panic(err)
	}
	raceBin := filepath.Join(filepath.Dir(exe), "vhsrv_race"+altTag())
	if _, err := os.Stat(raceBin); err != nil {
		raceBin = ""
	}
	dStress, dLin, dRaceStress, dRaceLin, dFirst := 8*time.Second, 4*time.Second, 6*time.Second, 4*time.Second, 5*time.Second
	if c.Thorough() {
		dStress, dLin, dRaceStress, dRaceLin, dFirst = 45*time.Second, 20*time.Second, 30*time.Second, 15*time.Second, 25*time.Second
	}
	type job struct {
		name, bin, mode string
		dur             time.Duration
		env             []string
		out             childOut
	}
	jobs := []*job{
		{name: "stress", bin: exe, mode: "stress", dur: dStress},
		{name: "store_histories", bin: exe, mode: "lin", dur: dLin},
		{name: "first_requests", bin: exe, mode: "first", dur: dFirst},
		{name: "startup", bin: exe, mode: "startup", dur: 2 * time.Second},
	}
	if raceBin != "" {
		jobs = append(jobs,
			&job{name: "race_stress", bin: raceBin, mode: "stress", dur: dRaceStress, env: []string{"C20_NOBCRYPT=1", "GORACE=halt_on_error=0 exitcode=0"}},
			&job{name: "race_store_histories", bin: raceBin, mode: "lin", dur: dRaceLin, env: []string{"GORACE=halt_on_error=0 exitcode=0"}},
			&job{name: "race_first_requests", bin: raceBin, mode: "first", dur: dFirst, env: []string{"GORACE=halt_on_error=0 exitcode=0"}},
			&job{name: "race_startup", bin: raceBin, mode: "startup", dur: 2 * time.Second, env: []string{"GORACE=halt_on_error=0 exitcode=0"}})
		c.Count("race_detector/available")
	} else {
		c.Count("race_detector/unavailable")
		c.Extra["race_detector"] = "build/vhsrv_race not found (pre hook translator/build_race.sh did not run or failed); race detection rests on the translator obligation and the runtime's concurrent-map check"
	}
	var wg sync.WaitGroup
	for _, j := range jobs {
		wg.Add(1)
		go func(j *job) {
			defer wg.Done()
			j.out = runChild(j.bin, j.mode, c.Seed, j.dur, j.env...)
		}(j)
	}
	wg.Wait()

	add := func(phase string, ok bool, input, obs any) {
		c.Count("phase/" + phase)
		if ok {
			c.Count("verdict/ok")
		} else {
			c.Count("verdict/fail")
		}
		cs := &Case{Key: map[string]string{"phase": phase}, Input: input, Obs: obs, Term: emit.Bool(ok), Dedup: phase}
		if !ok {
			cs.ImplSpecOK = Bptr(false)
		}
		c.Add(g, cs)
	}
	for _, j := range jobs {
		in := map[string]any{"workload": j.mode, "binary": filepath.Base(j.bin), "seed": c.Seed, "duration": j.dur.String()}
		o := j.out
		isRace := strings.HasPrefix(j.name, "race_")
		if o.res != nil {
			for k, v := range o.res.Ops {
				c.Hist[j.name+"/"+k] += v
			}
			for k, v := range o.res.Workers {
				c.Hist[j.name+"/goroutines="+k] += v
			}
			c.Extra[j.name] = map[string]any{"requests": o.res.Total, "rounds": o.res.Rounds, "histories": o.res.Histories,
				"history_ops": o.res.HistOps, "histories_with_overlap": o.res.Overlap, "wall": o.wall.String()}
		}
		// (a) the child must finish and report
		if o.res == nil {
			add(j.name+"/completes", false, in, map[string]any{"error": fmt.Sprint(o.err), "output": tail(o.stderr, 3000),
				"meaning": "the workload crashed the process (e.g. fatal error: concurrent map read and map write) or never reported"})
			continue
		}
		add(j.name+"/completes", true, in, map[string]any{"requests": o.res.Total, "histories": o.res.Histories})
		switch j.mode {
		case "stress", "first", "startup":
			if j.mode == "startup" {
				add(j.name+"/serves_every_stored_service", len(o.res.Problems) == 0, in, map[string]any{"problems": o.res.Problems, "starts": o.res.Rounds})
			}
			add(j.name+"/no_deadlock", !o.res.Deadlock, in, map[string]any{"deadlock": o.res.Deadlock,
				"watchdog": watchdog.String(), "per_request_deadline": reqDeadline.String(), "requests_in_flight": o.res.Stuck, "goroutines": o.res.Dump, "requests_completed": o.res.Total})
			add(j.name+"/no_panic", len(o.res.Panics) == 0, in, map[string]any{"panics": o.res.Panics})
		case "lin":
			add(j.name+"/linearizable", o.res.NonLin == "" && !o.res.Hung, in, map[string]any{"histories": o.res.Histories,
				"non_linearizable_history": json.RawMessage(orNull(o.res.NonLin)), "store_hung": o.res.Hung, "goroutines": o.res.Dump})
		}
		if isRace {
			inLib, other := raceReports(o.stderr)
			if other > 0 {
				c.Extra[j.name+"_reports_outside_library"] = other
			}
			first := ""
			if len(inLib) > 0 {
				first = inLib[0]
				if len(first) > 4000 {
					first = first[:4000]
				}
			}
			add(j.name+"/no_data_race", len(inLib) == 0, in, map[string]any{"reports": len(inLib), "first_report": first})
		}
	}
}

func orNull(s string) string {
	if s == "" {
		return "null"
	}
	return s
}

// c20Sequential: sequential MemoryStore histories against the Gallina map specification.
func c20Sequential(c *Ctx) {
	g := c.Group("c20seq", []string{"Concurrency"}, "seqcase", "check_seqcases")
	n := 300
	if c.Thorough() {
		n = 3000
	}
	keys := []string{"/a/1", "/a/2", "/b/1", "/a/", "/", "/b/a/1", "/b/to/a/", "/a/b/a/"}
	vals := []string{"1", "2", "x y", ""}
	for i := 0; i < n; i++ {
		st := &samlidp.MemoryStore{}
		var ops, obs []string
		var in []string
		ln := 1 + c.Rng.Intn(12)
		for k := 0; k < ln; k++ {
			key := keys[c.Rng.Intn(len(keys))]
			switch x := c.Rng.Intn(10); {
			case x < 4:
				v := vals[c.Rng.Intn(len(vals))]
				_ = st.Put(key, v)
				ops = append(ops, "SPut "+emit.Str(key)+" "+emit.Str(v))
				obs = append(obs, "RUnit")
				in = append(in, "put "+key+"="+v)
				c.Count("seq/put")
			case x < 7:
				var v string
				err := st.Get(key, &v)
				ops = append(ops, "SGet "+emit.Str(key))
				if err != nil {
					obs = append(obs, "RVal None")
				} else {
					obs = append(obs, "RVal (Some "+emit.Str(v)+")")
				}
				in = append(in, "get "+key)
				c.Count("seq/get")
			case x < 8:
				_ = st.Delete(key)
				ops = append(ops, "SDel "+emit.Str(key))
				obs = append(obs, "RUnit")
				in = append(in, "delete "+key)
				c.Count("seq/delete")
			default:
				pre := []string{"/", "/a/", "/a/", "/b", "/b/", ""}[c.Rng.Intn(6)]
				ks, _ := st.List(pre)
				ops = append(ops, "SList "+emit.Str(pre))
				obs = append(obs, "RKeys "+emit.StrList(ks))
				in = append(in, "list "+pre)
				c.Count("seq/list")
			}
		}
		c.Add(g, &Case{Key: map[string]string{"phase": "sequential_store"}, Input: in, Obs: obs,
			Term: "{| sq_ops := " + emit.List(ops) + "; sq_obs := " + emit.List(obs) + " |}"})
	}
}
