package main

import (
	"bytes"
	"encoding/base64"
	"encoding/xml"
	"fmt"
	"html"
	"net/http"
	"net/url"
	"regexp"
	"runtime"
	"strings"
	"sync"
	"time"

	"github.com/crewjam/saml"
	"github.com/crewjam/saml/samlidp"

	"verifharness/internal/fix"
)

// quietLogger discards the server's log lines.
type quietLogger struct{}

func (quietLogger) Printf(string, ...interface{}) {}
func (quietLogger) Print(...interface{})          {}
func (quietLogger) Println(...interface{})        {}
func (quietLogger) Fatal(v ...interface{})        { panic(fmt.Sprint(v...)) }
func (quietLogger) Fatalf(f string, v ...interface{}) {
	panic(fmt.Sprintf(f, v...))
}
func (quietLogger) Fatalln(v ...interface{}) { panic(fmt.Sprint(v...)) }
func (quietLogger) Panic(v ...interface{})   { panic(fmt.Sprint(v...)) }
func (quietLogger) Panicf(f string, v ...interface{}) {
	panic(fmt.Sprintf(f, v...))
}
func (quietLogger) Panicln(v ...interface{}) { panic(fmt.Sprint(v...)) }

var (
	idpKey  = fix.RSAKey("rsa_a")
	idpCert = fix.Cert("rsa_a")
)

const idpBase = "https://idp.example.com"

// newServer builds the real samlidp.Server over the given store.
func newServer(store samlidp.Store) (*samlidp.Server, error) { return newServerOpt(store, false) }

// newServerOpt: minimal = every optional Option left unset (Logger, Signer,
// LoginFormTemplate): the defaults of samlidp.New must serve every request too.
func newServerOpt(store samlidp.Store, minimal bool) (*samlidp.Server, error) {
	o := samlidp.Options{
		Certificate: idpCert,
		Key:         idpKey,
		Store:       store,
		URL:         url.URL{Scheme: "https", Host: "idp.example.com"},
	}
	if !minimal {
		o.Logger = quietLogger{}
	}
	return samlidp.New(o)
}

const startupDeadline = 8 * time.Second

// startServer runs samlidp.New with a deadline: a start-up that does not return is reported, not waited for.
func startServer(store samlidp.Store, minimal bool) (srv *samlidp.Server, err error, hung bool, panicked any) {
	type out struct {
		s *samlidp.Server
		e error
		p any
	}
	ch := make(chan out, 1)
	done := make(chan struct{})
	g := newGidSet()
	go func() {
		id := g.enter()
		var o out
		defer func() {
			if p := recover(); p != nil {
				o.p = p
			}
			ch <- o
			g.leave(id)
			close(done)
		}()
		o.s, o.e = newServerOpt(store, minimal)
	}()
	if waitDone(done, startupDeadline, g.list) {
		return nil, nil, true, nil
	}
	o := <-ch
	return o.s, o.e, false, o.p
}

// escSeg percent-encodes a name as ONE path segment (slashes, dots, percent signs and all):
// the mux hands the decoded name to the handler.
func escSeg(s string) string {
	var sb strings.Builder
	for i := 0; i < len(s); i++ {
		c := s[i]
		if c >= 'a' && c <= 'z' || c >= 'A' && c <= 'Z' || c >= '0' && c <= '9' || c == '-' || c == '_' {
			sb.WriteByte(c)
		} else {
			sb.WriteString(fmt.Sprintf("%%%02X", c))
		}
	}
	return sb.String()
}

const postBinding = "urn:oasis:names:tc:SAML:2.0:bindings:HTTP-POST"

// spMetadataXML renders SP metadata with the given entity ID and HTTP-POST
// ACS locations (no key descriptors: assertions stay unencrypted).
func spMetadataXML(entityID string, acs []string) string {
	var sb strings.Builder
	sb.WriteString(`<EntityDescriptor xmlns="urn:oasis:names:tc:SAML:2.0:metadata" entityID="` + html.EscapeString(entityID) + `">`)
	sb.WriteString(`<SPSSODescriptor protocolSupportEnumeration="urn:oasis:names:tc:SAML:2.0:protocol">`)
	for i, a := range acs {
		sb.WriteString(fmt.Sprintf(`<AssertionConsumerService Binding="%s" Location="%s" index="%d"></AssertionConsumerService>`,
			postBinding, html.EscapeString(a), i+1))
	}
	sb.WriteString(`</SPSSODescriptor></EntityDescriptor>`)
	return sb.String()
}

// unstorableMetadataXML: metadata that parses but whose validUntil (zone +24:00) cannot be
// marshalled to JSON, so the Store.Put of the service fails inside the store.
func unstorableMetadataXML(entityID, acs string) string {
	return strings.Replace(spMetadataXML(entityID, []string{acs}), `<EntityDescriptor `, `<EntityDescriptor validUntil="2030-01-01T00:00:00+24:00" `, 1)
}

// aggEnt is one entity of an EntitiesDescriptor aggregate (SP = it has an SPSSODescriptor).
type aggEnt struct {
	Entity string
	ACS    []string
	SP     bool
}

func (e aggEnt) xml() string {
	if e.SP {
		return spMetadataXML(e.Entity, e.ACS)
	}
	return `<EntityDescriptor xmlns="urn:oasis:names:tc:SAML:2.0:metadata" entityID="` + html.EscapeString(e.Entity) + `">` +
		`<IDPSSODescriptor protocolSupportEnumeration="urn:oasis:names:tc:SAML:2.0:protocol">` +
		`<SingleSignOnService Binding="` + postBinding + `" Location="https://other-idp.example.com/sso"></SingleSignOnService>` +
		`</IDPSSODescriptor></EntityDescriptor>`
}

// aggregateXML renders an EntitiesDescriptor; nested (if any) is wrapped in an inner
// EntitiesDescriptor placed before the top-level entities.
func aggregateXML(ents []aggEnt, nested []aggEnt) string {
	var sb strings.Builder
	sb.WriteString(`<EntitiesDescriptor xmlns="urn:oasis:names:tc:SAML:2.0:metadata" Name="aggregate">`)
	if len(nested) > 0 {
		sb.WriteString(`<EntitiesDescriptor Name="inner">`)
		for _, e := range nested {
			sb.WriteString(e.xml())
		}
		sb.WriteString(`</EntitiesDescriptor>`)
	}
	for _, e := range ents {
		sb.WriteString(e.xml())
	}
	sb.WriteString(`</EntitiesDescriptor>`)
	return sb.String()
}

const artifactBinding = "urn:oasis:names:tc:SAML:2.0:bindings:HTTP-Artifact"

// spMetadataShapeXML: the same SP (entity ID, HTTP-POST ACS locations in document order) with the POST
// endpoints at other positions: behind Artifact-binding endpoints, or in a second SPSSODescriptor.
func spMetadataShapeXML(entityID string, acs []string, shape int) string {
	if shape == 0 {
		return spMetadataXML(entityID, acs)
	}
	ep := func(binding, loc string, idx int) string {
		return fmt.Sprintf(`<AssertionConsumerService Binding="%s" Location="%s" index="%d"></AssertionConsumerService>`, binding, html.EscapeString(loc), idx)
	}
	art := func(i int) string {
		return ep(artifactBinding, fmt.Sprintf("https://artifact.example.net/acs%d", i), 20+i)
	}
	var posts strings.Builder
	for i, a := range acs {
		posts.WriteString(ep(postBinding, a, i+1))
	}
	open, closeD := `<SPSSODescriptor protocolSupportEnumeration="urn:oasis:names:tc:SAML:2.0:protocol">`, `</SPSSODescriptor>`
	var body string
	switch shape {
	case 1:
		body = open + art(1) + posts.String() + closeD
	case 2:
		body = open + art(1) + art(2) + posts.String() + art(3) + closeD
	case 3:
		body = open + art(1) + closeD + open + posts.String() + closeD
	default:
		body = open + closeD + open + art(1) + posts.String() + closeD
	}
	return `<EntityDescriptor xmlns="urn:oasis:names:tc:SAML:2.0:metadata" entityID="` + html.EscapeString(entityID) + `">` + body + `</EntityDescriptor>`
}

// authnRequestB64 is the POST-binding form value of an AuthnRequest.
func authnRequestB64(issuer, acsURL, id string, now time.Time) string {
	x := `<samlp:AuthnRequest xmlns:samlp="urn:oasis:names:tc:SAML:2.0:protocol" xmlns:saml="urn:oasis:names:tc:SAML:2.0:assertion"` +
		` ID="` + id + `" Version="2.0" IssueInstant="` + now.UTC().Format("2006-01-02T15:04:05Z") + `"` +
		` Destination="` + idpBase + `/sso"`
	if acsURL != "" {
		x += ` AssertionConsumerServiceURL="` + html.EscapeString(acsURL) + `"`
	}
	x += ` ProtocolBinding="` + postBinding + `"><saml:Issuer>` + html.EscapeString(issuer) + `</saml:Issuer></samlp:AuthnRequest>`
	return base64.StdEncoding.EncodeToString([]byte(x))
}

// recorder is an http.ResponseWriter that counts how the handler used it.
type recorder struct {
	hdr          http.Header
	body         bytes.Buffer
	code         int
	explicitWH   int  // explicit WriteHeader calls
	whAfterWrite bool // WriteHeader after the body had begun
	wrote        bool
	implicit     bool // the body began without a WriteHeader (implicit 200)
}

func newRecorder() *recorder { return &recorder{hdr: http.Header{}} }

func (r *recorder) Header() http.Header { return r.hdr }
func (r *recorder) WriteHeader(c int) {
	r.explicitWH++
	if r.wrote || r.code != 0 {
		if r.wrote {
			r.whAfterWrite = true
		}
		return // net/http ignores (and logs) a superfluous WriteHeader
	}
	r.code = c
}
func (r *recorder) Write(b []byte) (int, error) {
	if r.code == 0 {
		r.code = 200
		r.implicit = true
	}
	r.wrote = true
	return r.body.Write(b)
}
func (r *recorder) status() int {
	if r.code == 0 {
		return 200
	}
	return r.code
}

// oneReply: the handler produced exactly one reply (at most one explicit
// WriteHeader, none after the body began).
func (r *recorder) oneReply() bool { return r.explicitWH <= 1 && !r.whAfterWrite }

func (r *recorder) setCookie(name string) (string, bool) {
	resp := http.Response{Header: r.hdr}
	for _, c := range resp.Cookies() {
		if c.Name == name {
			return c.Value, true
		}
	}
	return "", false
}

type reqSpec struct {
	method, path string
	form         url.Values // POST form (nil = none)
	body, ctype  string     // raw body
	cookie       string     // session cookie value ("" = none)
	emptyCookie  bool       // send the session cookie with an empty value
}

func serve(h http.Handler, q reqSpec) (rec *recorder, panicked any) {
	var rd *strings.Reader
	ctype := q.ctype
	if q.form != nil {
		rd = strings.NewReader(q.form.Encode())
		ctype = "application/x-www-form-urlencoded"
	} else {
		rd = strings.NewReader(q.body)
	}
	r, err := http.NewRequest(q.method, idpBase+q.path, rd)
	if err != nil {
		panic(err)
	}
	if ctype != "" {
		r.Header.Set("Content-Type", ctype)
	}
	if q.cookie != "" || q.emptyCookie {
		r.AddCookie(&http.Cookie{Name: "session", Value: q.cookie})
	}
	r.RemoteAddr = "192.0.2.1:1234"
	rec = newRecorder()
	defer func() {
		if p := recover(); p != nil {
			panicked = p
		}
	}()
	h.ServeHTTP(rec, r)
	return rec, nil
}

// serveDeadline is serve under a per-request deadline: a request that gets no reply is an
// observation (hung), not a harness error; its goroutine is abandoned.  To keep the verdict
// independent of machine load, "no reply" is declared only when, after the deadline, the
// serving goroutine is BLOCKED (waiting for a lock, a channel, a condition) on two samples
// one second apart; while it is running or runnable the wait goes on (up to two minutes).
func serveDeadline(h http.Handler, q reqSpec, d time.Duration) (rec *recorder, panicked any, hung bool) {
	type out struct {
		r *recorder
		p any
	}
	ch := make(chan out, 1)
	gid := make(chan string, 1)
	go func() {
		gid <- goroutineID()
		r, p := serve(h, q)
		ch <- out{r, p}
	}()
	id := <-gid
	timer := time.NewTimer(d)
	defer timer.Stop()
	select {
	case o := <-ch:
		return o.r, o.p, false
	case <-timer.C:
	}
	blockedSamples := 0
	for waited := time.Duration(0); waited < 2*time.Minute; waited += time.Second {
		if goroutineBlocked(id) {
			blockedSamples++
			if blockedSamples >= 2 {
				return nil, nil, true
			}
		} else {
			blockedSamples = 0
		}
		select {
		case o := <-ch:
			return o.r, o.p, false
		case <-time.After(time.Second):
		}
	}
	return nil, nil, true
}

// gidSet collects the ids of the goroutines a wait depends on; finished ones are removed.
type gidSet struct {
	mu  sync.Mutex
	ids map[string]bool
}

func newGidSet() *gidSet { return &gidSet{ids: map[string]bool{}} }
func (g *gidSet) enter() string {
	id := goroutineID()
	g.mu.Lock()
	g.ids[id] = true
	g.mu.Unlock()
	return id
}
func (g *gidSet) leave(id string) {
	g.mu.Lock()
	delete(g.ids, id)
	g.mu.Unlock()
}
func (g *gidSet) list() []string {
	g.mu.Lock()
	defer g.mu.Unlock()
	var out []string
	for id := range g.ids {
		out = append(out, id)
	}
	return out
}

// allBlocked: every listed goroutine waits for a lock, a semaphore, a channel or a condition
func allBlocked(ids []string) bool {
	if len(ids) == 0 {
		return false
	}
	for _, id := range ids {
		if !goroutineBlocked(id) {
			return false
		}
	}
	return true
}

// waitDone waits for done.  After the deadline d it is declared hung only when the goroutines it
// waits for (pending()) are all BLOCKED on two samples one second apart; while any of them is running
// or runnable the wait goes on (cap: two minutes), so a loaded machine cannot produce the verdict.
func waitDone(done <-chan struct{}, d time.Duration, pending func() []string) (hung bool) {
	t := time.NewTimer(d)
	defer t.Stop()
	select {
	case <-done:
		return false
	case <-t.C:
	}
	if confirmHung(done, pending) {
		return true
	}
	<-done // nothing is blocked: whatever is still pending is running and will finish
	return false
}

// confirmHung: see waitDone; an empty pending() means the condition has gone away
func confirmHung(done <-chan struct{}, pending func() []string) bool {
	samples := 0
	for waited := 0; waited < 120; waited++ {
		ids := pending()
		if len(ids) == 0 {
			return false
		}
		if allBlocked(ids) {
			samples++
			if samples >= 2 {
				return true
			}
		} else {
			samples = 0
		}
		select {
		case <-done:
			return false
		case <-time.After(time.Second):
		}
	}
	return true
}

var reGoroutineHeader = regexp.MustCompile(`(?m)^goroutine (\d+) \[([^\]]*)\]:`)

func goroutineID() string {
	buf := make([]byte, 64)
	n := runtime.Stack(buf, false)
	if m := reGoroutineHeader.FindSubmatch(buf[:n]); m != nil {
		return string(m[1])
	}
	return ""
}

// goroutineBlocked: the goroutine exists and waits for a lock, a semaphore, a channel or a condition
func goroutineBlocked(id string) bool {
	buf := make([]byte, 8<<20)
	n := runtime.Stack(buf, true)
	for _, m := range reGoroutineHeader.FindAllSubmatch(buf[:n], -1) {
		if string(m[1]) == id {
			st := string(m[2])
			for _, w := range []string{"Lock", "semacquire", "chan ", "select", "sync.", "Cond"} {
				if strings.Contains(st, w) {
					return true
				}
			}
			return false
		}
	}
	return false
}

var (
	reSAMLResponse = regexp.MustCompile(`name="SAMLResponse" value="([^"]*)"`)
	reFormAction   = regexp.MustCompile(`<form method="post" action="([^"]*)" id="SAMLResponseForm"`)
)

// samlReply is what an emitted SAMLResponse form says.
type samlReply struct {
	Action      string // form action (ACS location)
	Destination string
	NameID      string
	Audience    string
	Recipient   string
	Attrs       map[string][]string // by FriendlyName
}

// parseSAMLReply decodes the SAMLResponse form in body, if any.
func parseSAMLReply(body string) (*samlReply, error) {
	m := reSAMLResponse.FindStringSubmatch(body)
	if m == nil {
		return nil, nil
	}
	raw, err := base64.StdEncoding.DecodeString(html.UnescapeString(m[1]))
	if err != nil {
		return nil, err
	}
	var resp saml.Response
	if err := xml.Unmarshal(raw, &resp); err != nil {
		return nil, err
	}
	out := &samlReply{Destination: resp.Destination, Attrs: map[string][]string{}}
	if a := reFormAction.FindStringSubmatch(body); a != nil {
		out.Action = html.UnescapeString(a[1])
	}
	as := resp.Assertion
	if as == nil {
		return out, fmt.Errorf("response without a plaintext assertion")
	}
	if as.Subject != nil && as.Subject.NameID != nil {
		out.NameID = as.Subject.NameID.Value
		for _, sc := range as.Subject.SubjectConfirmations {
			if sc.SubjectConfirmationData != nil {
				out.Recipient = sc.SubjectConfirmationData.Recipient
			}
		}
	}
	if as.Conditions != nil {
		for _, ar := range as.Conditions.AudienceRestrictions {
			out.Audience = ar.Audience.Value
		}
	}
	for _, st := range as.AttributeStatements {
		for _, at := range st.Attributes {
			var vs []string
			for _, v := range at.Values {
				vs = append(vs, v.Value)
			}
			out.Attrs[at.FriendlyName] = vs
		}
	}
	return out, nil
}
