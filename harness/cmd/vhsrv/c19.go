package main

// C19 — the bundled IdP server issues assertions only to authenticated users.
//
// The real samlidp.Server (samlidp.New) runs over a fault-injecting Store
// wrapper around MemoryStore, with a seeded saml.RandReader and a controlled
// saml.TimeNow, and is driven through its http.Handler.  Each history (list
// of operations + fault plan) is executed against the server; every reply is
// observed (replies started, status, body class incl. the decoded
// SAMLResponse, Set-Cookie, stored bcrypt hashes in the body) and written as a
// Gallina term.  coqc evaluates IdpServer.step on the same history and plan
// and compares the replies (agree), and evaluates the boolean form of the C19
// theorems on the implementation's replies (spec).
//
// bcrypt at DefaultCost bounds the volume, so histories are executed by child
// processes in parallel (saml.TimeNow / saml.RandReader are package variables).

import (
	. "verifharness/internal/core"

	"bytes"
	"encoding/base64"
	"encoding/json"
	"errors"
	"fmt"
	"math/rand"
	"net/url"
	"os"
	"os/exec"
	"path/filepath"
	"sort"
	"strings"
	"sync"
	"time"

	"github.com/crewjam/saml"
	"github.com/crewjam/saml/samlidp"

	"verifharness/internal/emit"
)

func init() {
	Props["C19"] = runC19
	Props["C19child"] = runC19Child
}

// ---------------------------------------------------------------------------
// histories

type prof struct {
	Email, CN, SN, Given, Scoped string
	Groups                       []string
}

type mdv struct {
	Entity string
	ACS    []string // the HTTP-POST assertion consumer services, in document order
	// Shape: where the POST endpoints stand in the metadata (0: they are the only children of the only
	// SPSSODescriptor; 1: one Artifact-binding ACS before them; 2: two before and one after; 3: a first
	// SPSSODescriptor with only an Artifact ACS, the POST endpoints in the second; 4: an empty first descriptor)
	Shape int `json:",omitempty"`
}

type hop19 struct {
	Kind   string  `json:"k"`
	Name   string  `json:"n,omitempty"` // user / service id / shortcut / session ref
	PW     *string `json:"pw,omitempty"`
	Prof   *prof   `json:"prof,omitempty"`
	MD     *mdv    `json:"md,omitempty"`
	SP     string  `json:"sp,omitempty"`     // shortcut target entity
	Issuer string  `json:"issuer,omitempty"` // sso
	ACS    string  `json:"acs,omitempty"`
	User   string  `json:"user,omitempty"` // credentials
	Pass   string  `json:"pass,omitempty"`
	Cookie *string `json:"cookie,omitempty"`
	Dt     int64   `json:"dt,omitempty"`
	// BodyName: the "name" member of the JSON body of PUT /users/{id} and PUT /shortcuts/{id}
	// when it is to differ from the URL (nil = same as the URL; "<absent>" = no name member)
	BodyName *string `json:"body_name,omitempty"`
	// PUT /services/{id} with an EntitiesDescriptor aggregate: its top-level entities in document
	// order (IsAgg), and the entities of a nested EntitiesDescriptor placed first (not searched by
	// getSPMetadata).  MD is then the entity the unchanged code documents: the first SP entity (nil: none).
	IsAgg  bool     `json:"aggregate,omitempty"`
	Agg    []aggEnt `json:"entities,omitempty"`
	Nested []aggEnt `json:"nested,omitempty"`
}

type hist19 struct {
	Ops   []hop19 `json:"ops"`
	Plan  []int   `json:"plan"` // 0 NoFault, 1 NotFound, 2 IOErr; per store call in call order
	Class string  `json:"class"`
	// RestartAt >= 0: additionally run the history with a restart inserted before
	// op RestartAt and compare the later replies (restart refinement on the implementation)
	// RestartAt == -2: insert the restart right after the first operation during which a fault was delivered
	RestartAt int `json:"restart_at"`
	// Minimal: the server is built by samlidp.New with every optional Option unset (default logger etc.)
	Minimal bool `json:"minimal_options,omitempty"`
}

type obs19 struct {
	N      int      `json:"n"` // replies started
	Status int      `json:"status"`
	Body   string   `json:"body"` // empty | error | loginform | assertion | session | user | names
	A      *aobs    `json:"assertion,omitempty"`
	S      *sobs    `json:"session,omitempty"`
	U      *uobs    `json:"user,omitempty"`
	Names  []string `json:"names,omitempty"`
	Cookie *string  `json:"set_cookie,omitempty"` // abstract id S<n>
	Hash   bool     `json:"hash_in_body,omitempty"`
	Panic  string   `json:"panic,omitempty"`
	Hung   string   `json:"no_reply,omitempty"` // the request got no reply within the per-request deadline
}
type aobs struct {
	User, NameID string
	Prof         prof
	SP, ACS      string
}
type sobs struct {
	ID, User, NameID string
	Prof             prof
	Create, Expire   int64
}
type uobs struct {
	Name    string
	HasHash bool
	Prof    prof
}

type result19 struct {
	Obs        []obs19 `json:"obs"`
	ObsRestart []obs19 `json:"obs_restart,omitempty"` // replies from RestartAt on, in the run with the restart
	StoreCalls int     `json:"store_calls"`
	RestartIdx int     `json:"restart_idx"` // index of the first op after the inserted restart
	Dup        bool    `json:"dup"`         // two stored service ids shared an entity ID at some point
}

// ---------------------------------------------------------------------------
// the fault-injecting store

var errIO = errors.New("injected I/O error")

type faultStore struct {
	inner   *samlidp.MemoryStore
	plan    []int
	pos     int
	enabled bool
	faulted bool // a fault has been delivered
}

func (f *faultStore) next() int {
	if !f.enabled {
		return 0
	}
	x := 0
	if f.pos < len(f.plan) {
		x = f.plan[f.pos]
	}
	f.pos++
	if x != 0 {
		f.faulted = true
	}
	return x
}
func faultErr(x int) error {
	if x == 1 {
		return samlidp.ErrNotFound
	}
	return errIO
}

// Get: faults are honest — a store does not answer ErrNotFound for a key it
// holds (no handler could detect that); an injected NotFound on a present key
// is delivered as an I/O error (IdpServer.store_get does the same).
func (f *faultStore) Get(key string, value interface{}) error {
	if x := f.next(); x != 0 {
		if x == 1 {
			var raw json.RawMessage
			if f.inner.Get(key, &raw) != samlidp.ErrNotFound {
				return errIO
			}
		}
		return faultErr(x)
	}
	return f.inner.Get(key, value)
}
func (f *faultStore) Put(key string, value interface{}) error {
	if x := f.next(); x != 0 {
		return faultErr(x)
	}
	return f.inner.Put(key, value)
}
func (f *faultStore) Delete(key string) error {
	if x := f.next(); x != 0 {
		return faultErr(x)
	}
	return f.inner.Delete(key)
}
func (f *faultStore) List(prefix string) ([]string, error) {
	if x := f.next(); x != 0 {
		return nil, faultErr(x)
	}
	return f.inner.List(prefix)
}

// ---------------------------------------------------------------------------
// executing one history against the real server

// every request runs under this deadline; bcrypt at DefaultCost needs well under 0.2 s
const requestDeadline = 4 * time.Second

var clockBase = time.Date(2020, 1, 1, 0, 0, 0, 0, time.UTC)

type world19 struct {
	fs        *faultStore
	srv       *samlidp.Server
	clock     int64
	abs2real  map[string]string
	real2abs  map[string]string
	minimal   bool
	hungCount int
	dead      string            // set when a (re)start hung or failed: the rest of the history is not run
	svcEnt    map[string]string // ghost: stored service id -> entity ID (for the duplicate-entity class)
	dup       bool
}

func (w *world19) realID(x string) string {
	if r, ok := w.abs2real[x]; ok {
		return r
	}
	return x
}
func (w *world19) absID(r string) string {
	if a, ok := w.real2abs[r]; ok {
		return a
	}
	return r
}

func (w *world19) storeKeys() string {
	ks, _ := w.fs.inner.List("/")
	sort.Strings(ks)
	return strings.Join(ks, " ")
}

func profJSON(n string, bodyName *string, pw *string, p *prof) string {
	m := map[string]any{"name": n}
	if bodyName != nil {
		if *bodyName == "<absent>" {
			delete(m, "name")
		} else {
			m["name"] = *bodyName
		}
	}
	if pw != nil {
		m["password"] = *pw
	}
	if p != nil {
		if p.Email != "" {
			m["email"] = p.Email
		}
		if p.CN != "" {
			m["common_name"] = p.CN
		}
		if p.SN != "" {
			m["surname"] = p.SN
		}
		if p.Given != "" {
			m["given_name"] = p.Given
		}
		if p.Scoped != "" {
			m["scoped_affiliation"] = p.Scoped
		}
		if len(p.Groups) > 0 {
			m["groups"] = p.Groups
		}
	}
	b, _ := json.Marshal(m)
	return string(b)
}

func first(vs []string) string {
	if len(vs) > 0 {
		return vs[0]
	}
	return ""
}

func (w *world19) exec(o hop19) obs19 {
	var q reqSpec
	form := func() url.Values {
		v := url.Values{}
		if o.User != "" || o.Pass != "" {
			v.Set("user", o.User)
			v.Set("password", o.Pass)
		}
		return v
	}
	cookie := ""
	if o.Cookie != nil {
		cookie = w.realID(*o.Cookie)
	}
	emptyCk := o.Cookie != nil && cookie == ""
	switch o.Kind {
	case "advance":
		w.clock += o.Dt
		return obs19{Body: "none"}
	case "restart":
		w.fs.enabled = false
		srv, err, hung, pn := startServer(w.fs, w.minimal)
		w.fs.enabled = true
		switch {
		case hung:
			w.dead = fmt.Sprintf("samlidp.New over the same store did not return within %s (store keys: %s)", startupDeadline, w.storeKeys())
		case pn != nil:
			w.dead = fmt.Sprintf("samlidp.New over the same store panicked: %v (store keys: %s)", pn, w.storeKeys())
		case err != nil:
			w.dead = fmt.Sprintf("samlidp.New over the same store failed: %v (store keys: %s)", err, w.storeKeys())
		}
		if w.dead != "" {
			return obs19{Body: "none", Panic: w.dead}
		}
		w.srv = srv
		return obs19{Body: "none"}
	case "putuser":
		q = reqSpec{method: "PUT", path: "/users/" + escSeg(o.Name), body: profJSON(o.Name, o.BodyName, o.PW, o.Prof)}
	case "deluser":
		q = reqSpec{method: "DELETE", path: "/users/" + escSeg(o.Name)}
	case "getuser":
		q = reqSpec{method: "GET", path: "/users/" + escSeg(o.Name)}
	case "listusers":
		q = reqSpec{method: "GET", path: "/users/"}
	case "listservices":
		q = reqSpec{method: "GET", path: "/services/"}
	case "listshortcuts":
		q = reqSpec{method: "GET", path: "/shortcuts/"}
	case "listsessions":
		q = reqSpec{method: "GET", path: "/sessions/"}
	case "putservice":
		q = reqSpec{method: "PUT", path: "/services/" + escSeg(o.Name), body: spMetadataXML("", nil)}
		if o.IsAgg {
			q.body = aggregateXML(o.Agg, o.Nested)
		} else {
			q.body = spMetadataShapeXML(o.MD.Entity, o.MD.ACS, o.MD.Shape)
		}
	case "delservice":
		q = reqSpec{method: "DELETE", path: "/services/" + escSeg(o.Name)}
	case "putshortcut":
		body := `{"service_provider":` + jsonStr(o.SP) + `}`
		if o.BodyName != nil && *o.BodyName != "<absent>" {
			body = `{"name":` + jsonStr(*o.BodyName) + `,"service_provider":` + jsonStr(o.SP) + `}`
		}
		q = reqSpec{method: "PUT", path: "/shortcuts/" + escSeg(o.Name), body: body}
	case "delshortcut":
		q = reqSpec{method: "DELETE", path: "/shortcuts/" + escSeg(o.Name)}
	case "login":
		q = reqSpec{method: "POST", path: "/login", form: form(), cookie: cookie}
	case "sso":
		f := form()
		f.Set("SAMLRequest", authnRequestB64(o.Issuer, o.ACS, "id-req", clockBase.Add(time.Duration(w.clock))))
		q = reqSpec{method: "POST", path: "/sso", form: f, cookie: cookie}
	case "launch":
		q = reqSpec{method: "GET", path: "/login/" + escSeg(o.Name), cookie: cookie}
		if o.User != "" {
			q.method, q.form = "POST", form() // form credentials on the IdP-initiated URL
		}
	case "getsess":
		q = reqSpec{method: "GET", path: "/sessions/" + escSeg(w.realID(o.Name))}
	case "delsession":
		q = reqSpec{method: "DELETE", path: "/sessions/" + escSeg(w.realID(o.Name))}
	default:
		panic("unknown op " + o.Kind)
	}
	q.emptyCookie = emptyCk && (o.Kind == "login" || o.Kind == "sso" || o.Kind == "launch")
	if w.hungCount >= 3 {
		// three requests in a row got no reply: the server is wedged; the rest is recorded as unanswered without waiting again
		return obs19{Body: "error", Hung: "not waited for: the three preceding requests got no reply within " + requestDeadline.String()}
	}
	rec, p, hung := serveDeadline(w.srv, q, requestDeadline)
	if hung {
		// no reply at all: zero replies started; judged by the one-reply clause of the spec
		w.hungCount++
		return obs19{Body: "error", Hung: "no reply within " + requestDeadline.String()}
	}
	w.hungCount = 0
	ob := obs19{N: rec.explicitWH, Status: rec.status()}
	if rec.implicit {
		ob.N++
	}
	if p != nil {
		ob.Panic = fmt.Sprint(p)
	}
	body := rec.body.String()
	if ck, ok := rec.setCookie("session"); ok {
		if _, seen := w.real2abs[ck]; !seen {
			a := fmt.Sprintf("S%d", len(w.real2abs))
			w.real2abs[ck], w.abs2real[a] = a, ck
		}
		a := w.real2abs[ck]
		ob.Cookie = &a
	}
	// stored bcrypt hashes must not occur in any reply
	w.fs.enabled = false
	names, _ := w.fs.inner.List("/users/")
	for _, n := range names {
		var u samlidp.User
		if err := w.fs.inner.Get("/users/"+n, &u); err == nil && len(u.HashedPassword) > 0 {
			enc := base64.StdEncoding.EncodeToString(u.HashedPassword)
			hay := body
			for k, vs := range rec.hdr {
				hay += "\n" + k + ": " + strings.Join(vs, ",")
			}
			if strings.Contains(hay, string(u.HashedPassword)) || strings.Contains(hay, enc) ||
				strings.Contains(hay, base64.RawStdEncoding.EncodeToString(u.HashedPassword)) ||
				strings.Contains(hay, base64.URLEncoding.EncodeToString(u.HashedPassword)) {
				ob.Hash = true
			}
		}
	}
	w.fs.enabled = true
	// ghost bookkeeping for the duplicate-entity class (known finding K3)
	if ob.Status == 204 {
		switch o.Kind {
		case "putservice":
			if o.MD != nil {
				w.svcEnt[o.Name] = o.MD.Entity
			}
		case "delservice":
			delete(w.svcEnt, o.Name)
		}
		seen := map[string]bool{}
		for _, e := range w.svcEnt {
			if seen[e] {
				w.dup = true
			}
			seen[e] = true
		}
	}
	// classify the body
	sr, serr := parseSAMLReply(body)
	switch {
	case sr != nil:
		ob.Body = "assertion"
		a := &aobs{User: first(sr.Attrs["uid"]), NameID: sr.NameID, SP: sr.Audience, ACS: sr.Action,
			Prof: prof{Email: first(sr.Attrs["mail"]), CN: first(sr.Attrs["cn"]), SN: first(sr.Attrs["sn"]),
				Given: first(sr.Attrs["givenName"]), Scoped: first(sr.Attrs["scopedAffiliation"]), Groups: sr.Attrs["eduPersonAffiliation"]}}
		if serr != nil || sr.Destination != sr.Action || sr.Recipient != sr.Action {
			a.ACS = fmt.Sprintf("<inconsistent: action=%q destination=%q recipient=%q err=%v>", sr.Action, sr.Destination, sr.Recipient, serr)
		}
		ob.A = a
	case strings.Contains(body, `name="password"`) && strings.Contains(body, `<form method="post"`):
		ob.Body = "loginform"
	case ob.Status >= 400:
		ob.Body = "error"
	case ob.Status == 204 && body == "":
		ob.Body = "empty"
	default:
		switch o.Kind {
		case "listusers", "listservices", "listshortcuts", "listsessions":
			var l map[string][]string
			if json.Unmarshal([]byte(body), &l) == nil {
				if ks, ok := l[strings.TrimPrefix(o.Kind, "list")]; ok && len(l) == 1 {
					ob.Body, ob.Names = "names", []string{}
					for _, k := range ks {
						if o.Kind == "listsessions" {
							k = w.absID(k)
						}
						ob.Names = append(ob.Names, k)
					}
					sort.Strings(ob.Names)
				}
			}
		case "getuser":
			var u samlidp.User
			if json.Unmarshal([]byte(body), &u) == nil {
				ob.Body = "user"
				ob.U = &uobs{Name: u.Name, HasHash: len(u.HashedPassword) > 0 || strings.Contains(body, "hashed_password"),
					Prof: prof{Email: u.Email, CN: u.CommonName, SN: u.Surname, Given: u.GivenName, Scoped: u.ScopedAffiliation, Groups: u.Groups}}
			}
		case "login", "getsess":
			var s saml.Session
			if json.Unmarshal([]byte(body), &s) == nil && s.ID != "" {
				ob.Body = "session"
				ob.S = &sobs{ID: w.absID(s.ID), User: s.UserName, NameID: s.NameID,
					Prof:   prof{Email: s.UserEmail, CN: s.UserCommonName, SN: s.UserSurname, Given: s.UserGivenName, Scoped: s.UserScopedAffiliation, Groups: s.Groups},
					Create: int64(s.CreateTime.Sub(clockBase)), Expire: int64(s.ExpireTime.Sub(clockBase))}
			}
		}
		if ob.Body == "" {
			ob.Body = "other"
		}
	}
	return ob
}

func jsonStr(s string) string { b, _ := json.Marshal(s); return string(b) }

type seededReader struct{ r *rand.Rand }

func (s seededReader) Read(p []byte) (int, error) { return s.r.Read(p) }

func runHistory(h hist19, seed int64, restartAt int) ([]obs19, int, bool, int) {
	oldNow, oldRand := saml.TimeNow, saml.RandReader
	defer func() { saml.TimeNow, saml.RandReader = oldNow, oldRand }()
	w := &world19{fs: &faultStore{inner: &samlidp.MemoryStore{}, plan: h.Plan, enabled: true},
		abs2real: map[string]string{}, real2abs: map[string]string{}, svcEnt: map[string]string{}}
	saml.TimeNow = func() time.Time { return clockBase.Add(time.Duration(w.clock)) } // the model clock counts nanoseconds
	saml.RandReader = seededReader{rand.New(rand.NewSource(seed))}
	w.minimal = h.Minimal
	w.fs.enabled = false
	srv, err, hung, pn := startServer(w.fs, w.minimal)
	w.fs.enabled = true
	if err != nil || hung || pn != nil {
		panic(fmt.Sprint("samlidp.New over an empty store: ", err, hung, pn))
	}
	w.srv = srv
	var out []obs19
	firstFault := -1
	for i, o := range h.Ops {
		if i == restartAt && w.dead == "" {
			w.exec(hop19{Kind: "restart"})
		}
		if w.dead != "" { // the server never came (back) up: nothing more can be observed
			out = append(out, obs19{Body: "none", Panic: w.dead})
			continue
		}
		out = append(out, w.exec(o))
		if w.fs.faulted && firstFault < 0 {
			firstFault = i
		}
	}
	return out, w.fs.pos, w.dup, firstFault
}

// ---------------------------------------------------------------------------
// child: executes a chunk of histories

func runC19Child(c *Ctx) {
	b, err := os.ReadFile(os.Getenv("C19_CHUNK"))
	if err != nil {
		fmt.Fprintln(os.Stderr, err)
		os.Exit(2)
	}
	var hs []hist19
	if err := json.Unmarshal(b, &hs); err != nil {
		fmt.Fprintln(os.Stderr, err)
		os.Exit(2)
	}
	res := make([]result19, len(hs))
	for i, h := range hs {
		obs, calls, dup, firstFault := runHistory(h, c.Seed+int64(i), -1)
		res[i] = result19{Obs: obs, StoreCalls: calls, Dup: dup, RestartIdx: -1}
		at := h.RestartAt
		if at == -2 && firstFault >= 0 {
			at = firstFault + 1
		}
		if at >= 0 && at < len(h.Ops) {
			obs2, _, _, _ := runHistory(h, c.Seed+int64(i), at)
			res[i].ObsRestart, res[i].RestartIdx = obs2, at
		}
	}
	ob, _ := json.Marshal(res)
	if err := os.WriteFile(filepath.Join(c.Out, "result.json"), ob, 0o644); err != nil {
		fmt.Fprintln(os.Stderr, err)
		os.Exit(2)
	}
}

// ---------------------------------------------------------------------------
// generators

var (
	pw1, pw2, pwEmpty = "pw1", "pw2", ""
	users19           = []string{"alice", "bob"}
	profs19           = map[string][]prof{
		"alice": {{Email: "alice@example.com", CN: "Alice A", SN: "A", Given: "Alice", Scoped: "staff@example.com", Groups: []string{"admins", "users"}},
			{Email: "alice@corp.example", CN: "Alice B"}},
		"bob": {{Email: "bob@example.com", Groups: []string{"users"}},
			{Email: "bob@example.com", CN: "Bob", SN: "B", Given: "Bob"}},
	}
	e1, e2, e3  = "https://sp1.example.com/metadata", "https://sp2.example.com/metadata", "https://sp3.example.com/metadata"
	acs1, acs1b = "https://sp1.example.com/acs", "https://sp1.example.com/acs-b"
	acs2, acs2b = "https://sp2.example.com/acs", "https://sp2.example.com/acs2"
	md1         = mdv{Entity: e1, ACS: []string{acs1}}
	md1b        = mdv{Entity: e1, ACS: []string{acs1b}} // same entity ID, other ACS
	md2         = mdv{Entity: e2, ACS: []string{acs2, acs2b}}
	md3         = mdv{Entity: e3} // no ACS endpoint
	evilACS     = "https://evil.example.net/acs"
	unknownSP   = "https://unknown.example.org/metadata"
)

func sp(s string) *string { return &s }

func pick[T any](r *rand.Rand, xs []T) T { return xs[r.Intn(len(xs))] }

// genHistory: a random history over the small alphabets.  The generator keeps
// an approximate view of the server (ignoring faults) so that most requests are
// near the accept/reject boundary: registered issuer with a right or wrong ACS,
// existing user with the right or a near-miss password, live, expired, deleted
// or forged session.  dupOK allows two service ids to share an entity ID
// (class duplicate_entity_id, known finding K3).
func genHistory(r *rand.Rand, maxLen int, dupOK bool) hist19 {
	n := 4 + r.Intn(maxLen-3)
	h := hist19{RestartAt: -1, Class: "random"}
	// service id -> allowed metadata versions: without dupOK the entity IDs of the two ids are disjoint
	mdFor := map[string][]mdv{"a": {md1, md1b, md2}, "b": {md3}}
	if r.Intn(2) == 0 {
		mdFor = map[string][]mdv{"a": {md1, md1b}, "b": {md2, md3}}
	}
	if dupOK {
		mdFor = map[string][]mdv{"a": {md1, md1b, md2}, "b": {md1, md1b, md2, md3}}
		h.Class = "random_dup"
	}
	// approximate view
	svc := map[string]mdv{}
	pws := map[string]string{}
	hasPw := map[string]bool{}
	nSess := 0
	sc := map[string]string{}
	sessRef := func() string {
		if nSess > 0 && r.Intn(8) != 0 {
			return fmt.Sprintf("S%d", r.Intn(nSess))
		}
		return pick(r, []string{"S0", "S1", "S2", "forged", ""})
	}
	creds := func(o *hop19) {
		switch x := r.Intn(20); {
		case x < 2: // none
		case x < 10:
			o.Cookie = sp(sessRef())
		case x < 18:
			o.User = pick(r, []string{"alice", "alice", "bob", "bob", "carol"})
			if hasPw[o.User] && r.Intn(3) != 0 {
				o.Pass = pws[o.User]
			} else {
				o.Pass = pick(r, []string{pw1, pw2, pwEmpty, "PW1", "pw1 ", pw72, pw73, pw71})
			}
		default: // both: the password path decides
			o.User, o.Pass = pick(r, users19), pick(r, []string{pw1, pw2})
			o.Cookie = sp(sessRef())
		}
	}
	authOK := func(o hop19, parsed bool) {
		if parsed && o.User != "" && hasPw[o.User] && pws[o.User] == o.Pass {
			nSess++
		}
	}
	bcryptOps := 0
	withACS := func() []mdv {
		var out []mdv
		for _, id := range []string{"a", "b"} {
			if m, ok := svc[id]; ok && len(m.ACS) > 0 {
				out = append(out, m)
			}
		}
		return out
	}
	userWithPw := func() string {
		var us []string
		for _, u := range users19 {
			if hasPw[u] {
				us = append(us, u)
			}
		}
		if len(us) == 0 {
			return ""
		}
		return pick(r, us)
	}
	for len(h.Ops) < n {
		var o hop19
		x := r.Intn(100)
		// steer towards a populated server: a user with a password, a service with an ACS, a session
		switch {
		case userWithPw() == "" && r.Intn(2) == 0:
			x = 0
		case len(withACS()) == 0 && r.Intn(2) == 0:
			x = 25
		case nSess == 0 && userWithPw() != "" && r.Intn(3) == 0:
			x = 45
		}
		switch {
		case x < 10:
			u := pick(r, users19)
			p := pick(r, profs19[u])
			o = hop19{Kind: "putuser", Name: u, Prof: &p}
			if r.Intn(4) == 0 { // the body names somebody else: the URL decides
				o.BodyName = sp(pick(r, []string{"alice", "bob", "carol", "", "<absent>", "Alice"}))
			}
			if r.Intn(3) != 0 || x == 0 {
				o.PW = sp(pick(r, []string{pw1, pw1, pw1, pw2, pw2, pwEmpty, pw72, pw73}))
			}
		case x < 12:
			o = hop19{Kind: "deluser", Name: pick(r, users19)}
		case x < 16:
			o = hop19{Kind: "getuser", Name: pick(r, []string{"alice", "bob", "carol"})}
		case x < 18:
			o = hop19{Kind: pick(r, []string{"listusers", "listusers", "listservices", "listshortcuts", "listsessions"})}
		case x < 30:
			id := pick(r, []string{"a", "b"})
			m := pick(r, mdFor[id])
			if len(m.ACS) == 0 && r.Intn(3) != 0 {
				m = pick(r, mdFor[id])
			}
			if r.Intn(3) == 0 {
				m.Shape = 1 + r.Intn(4)
			}
			o = hop19{Kind: "putservice", Name: id, MD: &m}
			if r.Intn(4) == 0 { // an aggregate: the first SP entity counts
				other := pick(r, mdFor[id])
				var ents []aggEnt
				switch r.Intn(5) {
				case 0:
					ents = []aggEnt{spEnt(m)}
				case 1:
					ents = []aggEnt{spEnt(m), spEnt(other)}
				case 2:
					ents = []aggEnt{nonSP(), spEnt(m), spEnt(other)}
				case 3:
					ents = []aggEnt{nonSP()}
				default:
					ents = []aggEnt{spEnt(m), nonSP(), spEnt(other)}
				}
				var nested []aggEnt
				if r.Intn(4) == 0 {
					nested = []aggEnt{spEnt(other)}
				}
				o = putAgg(id, nested, ents...)
			}
		case x < 33:
			o = hop19{Kind: "delservice", Name: pick(r, []string{"a", "b"})}
		case x < 39:
			tgt := pick(r, []string{e1, e2, e3, unknownSP})
			if ms := withACS(); len(ms) > 0 && r.Intn(4) != 0 {
				tgt = pick(r, ms).Entity
			}
			o = hop19{Kind: "putshortcut", Name: pick(r, []string{"x", "x", "y"}), SP: tgt}
			if r.Intn(5) == 0 {
				o.BodyName = sp(pick(r, []string{"x", "y", "z", ""}))
			}
		case x < 41:
			o = hop19{Kind: "delshortcut", Name: pick(r, []string{"x", "y"})}
		case x < 50:
			o = hop19{Kind: "login"}
			if u := userWithPw(); u != "" && (x == 45 || r.Intn(2) == 0) {
				o.User, o.Pass = u, pws[u]
			} else {
				creds(&o)
			}
		case x < 72:
			o = hop19{Kind: "sso"}
			if ms := withACS(); len(ms) > 0 && r.Intn(6) != 0 {
				m := pick(r, ms)
				o.Issuer = m.Entity
				o.ACS = pick(r, append([]string{"", ""}, m.ACS...))
				if r.Intn(5) == 0 {
					o.ACS = pick(r, []string{evilACS, acs1, acs1b, acs2b})
				}
			} else {
				o.Issuer = pick(r, []string{e1, e2, e3, unknownSP})
				o.ACS = pick(r, []string{"", acs1, acs1b, acs2, acs2b, evilACS})
			}
			creds(&o)
		case x < 84:
			o = hop19{Kind: "launch", Name: pick(r, []string{"x", "x", "x", "y", "z"})}
			creds(&o)
			if o.User != "" && r.Intn(2) == 0 { // form credentials are not read on this URL: mostly use cookies
				o.User, o.Pass = "", ""
				o.Cookie = sp(sessRef())
			}
		case x < 87:
			o = hop19{Kind: "getsess", Name: sessRef()}
		case x < 90:
			o = hop19{Kind: "delsession", Name: sessRef()}
		case x < 97:
			o = hop19{Kind: "advance", Dt: pick(r, []int64{1, nsec, nsec, 60 * nsec, 60 * nsec, 1799 * nsec, 1800 * nsec, 3599 * nsec, 3600*nsec - 1,
				3600 * nsec, 3600 * nsec, 3600*nsec + 1, 3601 * nsec, 7200 * nsec})}
		default:
			o = hop19{Kind: "restart"}
		}
		if (o.Kind == "getsess" || o.Kind == "delsession") && o.Name == "" {
			o.Name = "forged"
		}
		// bcrypt bounds the volume: at most 8 hash/compare operations per history
		if (o.Kind == "putuser" && o.PW != nil) || ((o.Kind == "login" || o.Kind == "sso") && o.User != "") {
			if bcryptOps >= 8 {
				continue
			}
			bcryptOps++
		}
		switch o.Kind {
		case "putuser":
			if o.PW != nil {
				pws[o.Name], hasPw[o.Name] = *o.PW, true
			}
		case "deluser":
			delete(pws, o.Name)
			delete(hasPw, o.Name)
		case "putservice":
			if o.MD != nil {
				svc[o.Name] = *o.MD
			}
		case "delservice":
			delete(svc, o.Name)
		case "putshortcut":
			sc[o.Name] = o.SP
		case "login":
			authOK(o, true)
		case "sso":
			for _, m := range svc {
				if m.Entity == o.Issuer {
					authOK(o, true)
					break
				}
			}
		}
		h.Ops = append(h.Ops, o)
	}
	_ = sc
	switch x := r.Intn(20); {
	case x < 11: // no faults
	case x < 16: // one fault
		h.Plan = make([]int, 1+r.Intn(2*n))
		h.Plan[len(h.Plan)-1] = 1 + r.Intn(2)
	default: // several
		h.Plan = make([]int, 2*n)
		for i := range h.Plan {
			if r.Intn(8) == 0 {
				h.Plan[i] = 1 + r.Intn(2)
			}
		}
	}
	return h
}

// hostile name sets: each maps the plain names of the generators to names that stress the
// key <-> name correspondence of the store
var hostileNames = []map[string]string{
	{"alice": "al/ice", "bob": "bob/", "carol": "car%2Fol", "a": "apps/crm", "b": "https://wiki.example.com/saml2/metadata", "x": "go/to", "y": "é/ü", "z": ".."},
	{"alice": "../alice", "bob": "b.b/.", "carol": "c", "a": "a/", "b": "a", "x": "x/..", "y": "x", "z": "%"},
	{"alice": "a b+c", "bob": "services/a", "carol": "c/", "a": "users/alice", "b": "b/b/b", "x": ".", "y": "..", "z": "./x"},
	// names that contain another collection's listing prefix after their start
	{"alice": "x/services/a", "bob": "to/users/bob", "carol": "c/sessions/", "a": "a/shortcuts/x", "b": "b/users/", "x": "to/users/bob", "y": "x/shortcuts/", "z": "z/services/"},
	{"alice": "/users/alice", "bob": "/services/a", "carol": "//", "a": "/services/a", "b": "/users/bob/sessions/S0", "x": "/shortcuts/x", "y": "/users/", "z": "/x"},
}

// withListings lists every collection after every operation that writes to the store
func withListings(ops []hop19) []hop19 {
	var out []hop19
	for _, o := range ops {
		out = append(out, o)
		switch o.Kind {
		case "putuser", "deluser", "putservice", "delservice", "putshortcut", "delshortcut", "login", "delsession", "restart":
			out = append(out, hop19{Kind: "listusers"}, hop19{Kind: "listservices"}, hop19{Kind: "listshortcuts"}, hop19{Kind: "listsessions"})
		}
	}
	return out
}

func renameHostile(h hist19, variant int) hist19 {
	m := hostileNames[variant%len(hostileNames)]
	ren := func(s string) string {
		if r, ok := m[s]; ok {
			return r
		}
		return s
	}
	out := hist19{Plan: h.Plan, Class: "hostile_names", RestartAt: h.RestartAt, Minimal: h.Minimal}
	for _, o := range h.Ops {
		switch o.Kind {
		case "putuser", "deluser", "getuser", "putservice", "delservice", "putshortcut", "delshortcut", "launch":
			o.Name = ren(o.Name)
		}
		o.User = ren(o.User)
		if o.BodyName != nil && *o.BodyName != "<absent>" {
			o.BodyName = sp(ren(*o.BodyName))
		}
		out.Ops = append(out.Ops, o)
	}
	return out
}

func putUser(u string, pw *string, pi int) hop19 {
	p := profs19[u][pi]
	return hop19{Kind: "putuser", Name: u, PW: pw, Prof: &p}
}
func putSvc(id string, m mdv) hop19 { return hop19{Kind: "putservice", Name: id, MD: &m} }

const idpOnly = "https://idp-only.example.com/metadata"

func spEnt(m mdv) aggEnt { return aggEnt{Entity: m.Entity, ACS: m.ACS, SP: true} }
func nonSP() aggEnt      { return aggEnt{Entity: idpOnly} }

// putAgg: PUT /services/{id} with an aggregate; the registered entity is the first SP entity of the top level
func putAgg(id string, nested []aggEnt, ents ...aggEnt) hop19 {
	o := hop19{Kind: "putservice", Name: id, IsAgg: true, Agg: ents, Nested: nested}
	for _, e := range ents {
		if e.SP {
			o.MD = &mdv{Entity: e.Entity, ACS: e.ACS}
			break
		}
	}
	return o
}

// passwords around bcrypt's 72-byte limit
var (
	pw71   = strings.Repeat("0123456789", 7) + "0"
	pw72   = pw71 + "1"
	pw73   = pw72 + "x"
	pw73b  = pw72 + "y"
	pw200  = strings.Repeat("long-password-", 15)[:200]
	pwMB72 = pw71[:70] + "é" // 72 bytes, the last rune is two bytes
	pwMB73 = pw71 + "é"      // 73 bytes: the limit falls inside the rune
)

func ssoCookie(iss, acs, ck string) hop19 {
	return hop19{Kind: "sso", Issuer: iss, ACS: acs, Cookie: sp(ck)}
}
func ssoPw(iss, acs, u, pw string) hop19 {
	return hop19{Kind: "sso", Issuer: iss, ACS: acs, User: u, Pass: pw}
}
func loginPw(u, pw string) hop19  { return hop19{Kind: "login", User: u, Pass: pw} }
func launchCk(n, ck string) hop19 { return hop19{Kind: "launch", Name: n, Cookie: sp(ck)} }

const nsec = int64(time.Second)

func adv(sec int64) hop19  { return hop19{Kind: "advance", Dt: sec * nsec} } // seconds
func advNs(ns int64) hop19 { return hop19{Kind: "advance", Dt: ns} }

func directed19() []hist19 {
	var out []hist19
	add := func(class string, ops ...hop19) {
		out = append(out, hist19{Ops: ops, Class: class, RestartAt: -1})
	}
	setup := []hop19{putUser("alice", sp(pw1), 0), putSvc("a", md1), {Kind: "putshortcut", Name: "x", SP: e1}}
	with := func(more ...hop19) []hop19 { return append(append([]hop19{}, setup...), more...) }
	// session expiry at the boundary (valid while now <= expiry)
	for _, dt := range []int64{3599, 3600, 3601, 7200} {
		add("expiry", with(loginPw("alice", pw1), adv(dt), ssoCookie(e1, acs1, "S0"), launchCk("x", "S0"),
			hop19{Kind: "login", Cookie: sp("S0")})...)
		add("expiry", with(ssoPw(e1, "", "alice", pw1), adv(dt-1), adv(1), launchCk("x", "S0"), ssoCookie(e1, "", "S0"))...)
	}
	// ... exactly at the expiry instant the session is still good (expired = strictly after), one nanosecond later it is not
	for _, ns := range []int64{3600*nsec - 1, 3600 * nsec, 3600*nsec + 1, 3600*nsec - nsec, 3600*nsec + nsec} {
		add("expiry", with(loginPw("alice", pw1), advNs(ns), ssoCookie(e1, acs1, "S0"), launchCk("x", "S0"),
			hop19{Kind: "login", Cookie: sp("S0")}, hop19{Kind: "getsess", Name: "S0"})...)
		add("expiry", with(loginPw("alice", pw1), advNs(ns-5), advNs(2), advNs(3), launchCk("x", "S0"), ssoCookie(e1, "", "S0"))...)
		add("expiry", with(ssoPw(e1, "", "alice", pw1), advNs(ns), launchCk("x", "S0"), ssoCookie(e1, "", "S0"), advNs(1), launchCk("x", "S0"))...)
	}
	// deleted session
	add("deleted_session", with(loginPw("alice", pw1), ssoCookie(e1, acs1, "S0"), hop19{Kind: "delsession", Name: "S0"},
		ssoCookie(e1, acs1, "S0"), launchCk("x", "S0"), hop19{Kind: "getsess", Name: "S0"})...)
	add("deleted_session", with(loginPw("alice", pw1), loginPw("alice", pw1), hop19{Kind: "delsession", Name: "S1"},
		ssoCookie(e1, acs1, "S1"), ssoCookie(e1, acs1, "S0"))...)
	// forged / absent cookies, wrong passwords, near misses
	add("bad_credentials", with(ssoCookie(e1, acs1, "forged"), ssoCookie(e1, acs1, ""), hop19{Kind: "sso", Issuer: e1, ACS: acs1},
		ssoPw(e1, acs1, "alice", pw2), ssoPw(e1, acs1, "alice", ""), ssoPw(e1, acs1, "alice", "PW1"), ssoPw(e1, acs1, "alice", "pw1 "),
		ssoPw(e1, acs1, "Alice", pw1), ssoPw(e1, acs1, "bob", pw1), loginPw("alice", pw2), launchCk("x", "forged"),
		hop19{Kind: "launch", Name: "x"}, ssoPw(e1, acs1, "alice", pw1))...)
	// wrong password although a valid cookie is presented: the password path decides
	add("bad_credentials", with(loginPw("alice", pw1),
		hop19{Kind: "sso", Issuer: e1, ACS: acs1, User: "alice", Pass: pw2, Cookie: sp("S0")},
		hop19{Kind: "sso", Issuer: e1, ACS: acs1, User: "bob", Pass: pw1, Cookie: sp("S0")},
		hop19{Kind: "launch", Name: "x", User: "alice", Pass: pw2, Cookie: sp("S0")},
		hop19{Kind: "launch", Name: "x", User: "alice", Pass: pw1})...)
	// user stored without a password: nothing authenticates, the empty password included
	add("no_password", putUser("bob", nil, 0), putSvc("a", md1), hop19{Kind: "putshortcut", Name: "x", SP: e1},
		loginPw("bob", ""), loginPw("bob", "x"), loginPw("bob", pw1), ssoPw(e1, acs1, "bob", ""), ssoPw(e1, acs1, "bob", "hunter2"),
		hop19{Kind: "getuser", Name: "bob"}, hop19{Kind: "launch", Name: "x", User: "bob", Pass: ""})
	// password kept across a profile update without password; replaced by a new one; empty password is a password
	add("password_update", with(putUser("alice", nil, 1), ssoPw(e1, acs1, "alice", pw1), putUser("alice", sp(pw2), 1),
		ssoPw(e1, acs1, "alice", pw1), ssoPw(e1, acs1, "alice", pw2), putUser("alice", sp(""), 0), ssoPw(e1, acs1, "alice", ""),
		ssoPw(e1, acs1, "alice", pw2), hop19{Kind: "getuser", Name: "alice"}, hop19{Kind: "listusers"})...)
	// deleted / changed user with a live session: the session keeps the snapshot taken at login
	add("snapshot", with(loginPw("alice", pw1), hop19{Kind: "deluser", Name: "alice"}, ssoCookie(e1, acs1, "S0"),
		ssoPw(e1, acs1, "alice", pw1), putUser("alice", sp(pw2), 1), ssoCookie(e1, acs1, "S0"), launchCk("x", "S0"),
		ssoPw(e1, acs1, "alice", pw2), ssoCookie(e1, acs1, "S1"), hop19{Kind: "getsess", Name: "S0"})...)
	// SSO for an unregistered / deleted / replaced service; ACS not registered for that SP
	add("registration", putUser("alice", sp(pw1), 0), loginPw("alice", pw1), ssoCookie(e1, acs1, "S0"), putSvc("a", md1),
		ssoCookie(e1, acs1, "S0"), ssoCookie(e1, evilACS, "S0"), ssoCookie(e1, acs2, "S0"), ssoCookie(e2, acs2, "S0"), ssoCookie(unknownSP, "", "S0"),
		hop19{Kind: "delservice", Name: "a"}, ssoCookie(e1, acs1, "S0"), ssoPw(e1, acs1, "alice", pw1))
	add("registration", putUser("alice", sp(pw1), 0), loginPw("alice", pw1), putSvc("a", md1), hop19{Kind: "putshortcut", Name: "x", SP: e1},
		putSvc("a", md2), ssoCookie(e1, acs1, "S0"), launchCk("x", "S0"), ssoCookie(e2, acs2b, "S0"), ssoCookie(e2, "", "S0"),
		putSvc("a", md1b), ssoCookie(e1, acs1, "S0"), ssoCookie(e1, acs1b, "S0"), launchCk("x", "S0"), ssoCookie(e2, acs2, "S0"),
		hop19{Kind: "restart"}, ssoCookie(e1, acs1b, "S0"), ssoCookie(e2, acs2, "S0"))
	add("registration", putUser("alice", sp(pw1), 0), loginPw("alice", pw1), putSvc("b", md3), hop19{Kind: "putshortcut", Name: "y", SP: e3},
		hop19{Kind: "putshortcut", Name: "x", SP: unknownSP}, launchCk("y", "S0"), ssoCookie(e3, "", "S0"), launchCk("x", "S0"), launchCk("z", "S0"),
		hop19{Kind: "delshortcut", Name: "y"}, launchCk("y", "S0"))
	// the HTTP-POST endpoint is not the first ACS child / not in the first SPSSODescriptor
	for shape := 1; shape <= 4; shape++ {
		m1, m2 := md1, md2
		m1.Shape, m2.Shape = shape, shape
		add("acs_position", putUser("alice", sp(pw1), 0), loginPw("alice", pw1), putSvc("a", m1), putSvc("b", m2),
			hop19{Kind: "putshortcut", Name: "x", SP: e1}, hop19{Kind: "putshortcut", Name: "y", SP: e2},
			launchCk("x", "S0"), launchCk("y", "S0"), ssoCookie(e1, "", "S0"), ssoCookie(e1, acs1, "S0"), ssoCookie(e2, acs2b, "S0"), ssoCookie(e2, "", "S0"),
			hop19{Kind: "restart"}, launchCk("x", "S0"), launchCk("y", "S0"), ssoCookie(e2, acs2, "S0"), hop19{Kind: "launch", Name: "x"})
	}
	// EntitiesDescriptor aggregates: exactly the first SP entity of the top level is registered
	aggTail := []hop19{ssoCookie(e1, "", "S0"), ssoCookie(e2, "", "S0"), ssoCookie(e3, "", "S0"), ssoCookie(idpOnly, "", "S0"),
		hop19{Kind: "putshortcut", Name: "x", SP: e1}, hop19{Kind: "putshortcut", Name: "y", SP: e2}, launchCk("x", "S0"), launchCk("y", "S0"),
		hop19{Kind: "listservices"}, hop19{Kind: "restart"}, ssoCookie(e1, "", "S0"), ssoCookie(e2, "", "S0"), launchCk("x", "S0"), launchCk("y", "S0")}
	aggHead := []hop19{putUser("alice", sp(pw1), 0), loginPw("alice", pw1)}
	for _, put := range []hop19{
		putAgg("a", nil, spEnt(md1)),
		putAgg("a", nil, spEnt(md1), spEnt(md2)),
		putAgg("a", nil, spEnt(md2), spEnt(md1), spEnt(md3)),
		putAgg("a", nil, nonSP(), spEnt(md2), spEnt(md1)),
		putAgg("a", nil, nonSP()),
		putAgg("a", nil),
		putAgg("a", []aggEnt{spEnt(md1)}, spEnt(md2)),
		putAgg("a", []aggEnt{spEnt(md1)}, nonSP()),
		putAgg("a", nil, spEnt(md3), spEnt(md1)),
	} {
		add("aggregate", append(append(append([]hop19{}, aggHead...), put), aggTail...)...)
		// ... also as a replacement of an existing registration
		add("aggregate", append(append(append([]hop19{}, aggHead...), putSvc("a", md1b), put), aggTail...)...)
	}
	// password length at the bcrypt limit (72 bytes), for create and for update: more than 72 bytes is an
	// error and changes nothing; bcrypt itself ignores what follows the first 72 bytes when comparing
	pwTry := func(u string) []hop19 {
		return []hop19{ssoPw(e1, "", u, pw1), ssoPw(e1, "", u, pw71), ssoPw(e1, "", u, pw72), ssoPw(e1, "", u, pw73),
			ssoPw(e1, "", u, pw73b), ssoPw(e1, "", u, pwMB72), ssoPw(e1, "", u, pwMB73)}
	}
	for _, long := range []string{pw73, pw200, pwMB73} {
		ops := []hop19{putSvc("a", md1), putUser("alice", sp(long), 0)} // create with a too long password
		ops = append(ops, pwTry("alice")...)
		ops = append(ops, hop19{Kind: "getuser", Name: "alice"}, putUser("alice", sp(pw1), 0), putUser("alice", sp(long), 1)) // update
		ops = append(ops, pwTry("alice")...)
		ops = append(ops, hop19{Kind: "getuser", Name: "alice"})
		add("password_length", ops...)
	}
	for _, ok := range []string{pw71, pw72, pwMB72} {
		ops := []hop19{putSvc("a", md1), putUser("bob", sp(ok), 0)}
		ops = append(ops, pwTry("bob")...)
		ops = append(ops, putUser("bob", sp(pw200), 1))
		ops = append(ops, pwTry("bob")...)
		add("password_length", ops...)
	}
	add("password_length", putSvc("a", md1), putUser("alice", sp("ab"), 0), ssoPw(e1, "", "alice", "ab"), ssoPw(e1, "", "alice", "ab\x00ab"),
		ssoPw(e1, "", "alice", "ab\x00"), ssoPw(e1, "", "alice", "abab"), ssoPw(e1, "", "alice", "a"))
	// request bodies whose identity disagrees with the URL: the URL decides (user name, shortcut name)
	named := func(o hop19, bn string) hop19 { o.BodyName = sp(bn); return o }
	add("body_vs_url", putUser("alice", sp(pw1), 0), putSvc("a", md1), hop19{Kind: "putshortcut", Name: "x", SP: e1},
		named(putUser("bob", sp(pw2), 0), "alice"), ssoPw(e1, acs1, "bob", pw2), loginPw("bob", pw2), ssoCookie(e1, acs1, "S0"),
		ssoPw(e1, acs1, "alice", pw2), ssoPw(e1, acs1, "alice", pw1), hop19{Kind: "getuser", Name: "bob"}, hop19{Kind: "getuser", Name: "alice"},
		hop19{Kind: "listusers"}, launchCk("x", "S1"), hop19{Kind: "getsess", Name: "S1"})
	add("body_vs_url", putSvc("a", md1), named(putUser("bob", sp(pw2), 1), "carol"), named(putUser("alice", sp(pw1), 0), ""),
		named(putUser("alice", nil, 1), "<absent>"), named(putUser("alice", nil, 0), "bob"), ssoPw(e1, "", "bob", pw2), ssoPw(e1, "", "carol", pw2),
		ssoPw(e1, "", "alice", pw1), hop19{Kind: "listusers"}, hop19{Kind: "getuser", Name: "carol"}, hop19{Kind: "deluser", Name: "bob"},
		ssoPw(e1, "", "bob", pw2), ssoPw(e1, "", "alice", pw1))
	add("body_vs_url", putUser("alice", sp(pw1), 0), loginPw("alice", pw1), putSvc("a", md1), putSvc("b", md2),
		named(hop19{Kind: "putshortcut", Name: "x", SP: e1}, "y"), named(hop19{Kind: "putshortcut", Name: "y", SP: e2}, "x"),
		launchCk("x", "S0"), launchCk("y", "S0"), hop19{Kind: "delshortcut", Name: "y"}, launchCk("x", "S0"), launchCk("y", "S0"))
	// restart at every position of a history that exercises the registry
	base := []hop19{putUser("alice", sp(pw1), 0), loginPw("alice", pw1), putSvc("a", md1), putSvc("b", md2),
		hop19{Kind: "putshortcut", Name: "x", SP: e2}, ssoCookie(e1, "", "S0"), putSvc("a", md1b), ssoCookie(e1, acs1, "S0"),
		hop19{Kind: "delservice", Name: "b"}, launchCk("x", "S0"), ssoCookie(e2, "", "S0"), ssoCookie(e1, acs1b, "S0")}
	for i := 2; i <= len(base); i += 2 {
		ops := append(append(append([]hop19{}, base[:i]...), hop19{Kind: "restart"}), base[i:]...)
		add("restart", ops...)
	}
	return out
}

// faultSweep: each single fault placement (both kinds) over histories whose
// store calls are the credential, session, user and service lookups
func faultSweep() []hist19 {
	var out []hist19
	bases := [][]hop19{
		{putUser("alice", sp(pw1), 0), putSvc("a", md1), {Kind: "putshortcut", Name: "x", SP: e1},
			loginPw("alice", pw1), ssoCookie(e1, acs1, "S0"), ssoPw(e1, acs1, "alice", pw1), launchCk("x", "S0"), launchCk("x", "S1"),
			{Kind: "login", Cookie: sp("S0")}},
		{putUser("alice", sp(pw1), 0), putUser("alice", nil, 1), loginPw("alice", pw1), {Kind: "getuser", Name: "alice"}, {Kind: "listusers"},
			{Kind: "getsess", Name: "S0"}, {Kind: "delsession", Name: "S0"}, {Kind: "login", Cookie: sp("S0")}, {Kind: "deluser", Name: "alice"}, loginPw("alice", pw1)},
		{putUser("alice", sp(pw1), 0), loginPw("alice", pw1), putSvc("a", md1), putSvc("a", md1), ssoCookie(e1, acs1, "S0"),
			{Kind: "delservice", Name: "a"}, ssoCookie(e1, acs1, "S0"), putSvc("a", md1b), {Kind: "restart"}, ssoCookie(e1, acs1b, "S0"),
			{Kind: "putshortcut", Name: "x", SP: e1}, {Kind: "delshortcut", Name: "x"}, launchCk("x", "S0")},
	}
	calls := []int{15, 14, 16} // upper bounds on the store calls of each base
	for bi, b := range bases {
		for pos := 0; pos < calls[bi]; pos++ {
			for kind := 1; kind <= 2; kind++ {
				plan := make([]int, pos+1)
				plan[pos] = kind
				out = append(out, hist19{Ops: b, Plan: plan, Class: "single_fault", RestartAt: -2})
			}
		}
	}
	return out
}

// ---------------------------------------------------------------------------
// Gallina terms

func (p prof) term() string {
	return fmt.Sprintf("(mkp %s %s %s %s %s %s)", emit.Str(p.Email), emit.Str(p.CN), emit.Str(p.SN), emit.Str(p.Given), emit.Str(p.Scoped), emit.StrList(p.Groups))
}

func credsTerm(o hop19) string {
	return fmt.Sprintf("(mkcr %s %s %s)", emit.Str(o.User), emit.Str(o.Pass), emit.OptStr(o.Cookie))
}

func opTerm(o hop19) string {
	switch o.Kind {
	case "putuser":
		p := prof{}
		if o.Prof != nil {
			p = *o.Prof
		}
		return fmt.Sprintf("PutUser %s %s %s", emit.Str(o.Name), emit.OptStr(o.PW), p.term())
	case "deluser":
		return "DelUser " + emit.Str(o.Name)
	case "getuser":
		return "GetUser " + emit.Str(o.Name)
	case "listusers":
		return "ListKeys CUsers"
	case "listservices":
		return "ListKeys CServices"
	case "listshortcuts":
		return "ListKeys CShortcuts"
	case "listsessions":
		return "ListKeys CSessions"
	case "putservice":
		if o.IsAgg {
			items := make([]string, len(o.Agg))
			for i, e := range o.Agg {
				items[i] = fmt.Sprintf("(mkmd %s %s, %s)", emit.Str(e.Entity), emit.StrList(e.ACS), emit.Bool(e.SP))
			}
			return fmt.Sprintf("PutService %s (MdAggregate %s)", emit.Str(o.Name), emit.List(items))
		}
		return fmt.Sprintf("PutService %s (MdSingle (mkmd %s %s))", emit.Str(o.Name), emit.Str(o.MD.Entity), emit.StrList(o.MD.ACS))
	case "delservice":
		return "DelService " + emit.Str(o.Name)
	case "putshortcut":
		return fmt.Sprintf("PutShortcut %s %s", emit.Str(o.Name), emit.Str(o.SP))
	case "delshortcut":
		return "DelShortcut " + emit.Str(o.Name)
	case "login":
		return "Login " + credsTerm(o)
	case "sso":
		return fmt.Sprintf("Sso (mkrq %s %s) %s", emit.Str(o.Issuer), emit.Str(o.ACS), credsTerm(o))
	case "launch":
		return fmt.Sprintf("Launch %s %s", emit.Str(o.Name), credsTerm(o))
	case "getsess":
		return "GetSess " + emit.Str(o.Name)
	case "delsession":
		return "DelSession " + emit.Str(o.Name)
	case "advance":
		return "Advance " + emit.Z(o.Dt)
	case "restart":
		return "Restart"
	}
	panic("op " + o.Kind)
}

func obsTerm(ob obs19) string {
	if ob.Body == "none" {
		return "mko 0 0 BError None false"
	}
	body := "BError"
	switch ob.Body {
	case "empty":
		body = "BEmpty"
	case "loginform":
		body = "BLoginForm"
	case "assertion":
		body = fmt.Sprintf("(BAssertion (mka %s %s %s %s %s))", emit.Str(ob.A.User), emit.Str(ob.A.NameID), ob.A.Prof.term(), emit.Str(ob.A.SP), emit.Str(ob.A.ACS))
	case "session":
		body = fmt.Sprintf("(BSession (mkse %s %s %s %s %s %s))", emit.Str(ob.S.ID), emit.Str(ob.S.User), emit.Str(ob.S.NameID), ob.S.Prof.term(), emit.Z(ob.S.Create), emit.Z(ob.S.Expire))
	case "user":
		h := "None"
		if ob.U.HasHash {
			h = `(Some "<disclosed>")`
		}
		body = fmt.Sprintf("(BUser (mku %s %s %s))", emit.Str(ob.U.Name), h, ob.U.Prof.term())
	case "names":
		body = "(BNames " + emit.StrList(ob.Names) + ")"
	case "other":
		body = `(BNames ["<unclassified body>"])`
	}
	return fmt.Sprintf("mko %d %d %s %s %s", ob.N, ob.Status, body, emit.OptStr(ob.Cookie), emit.Bool(ob.Hash))
}

func planTerm(p []int) string {
	items := make([]string, len(p))
	for i, x := range p {
		items[i] = []string{"NoFault", "NotFound", "IOErr"}[x]
	}
	return emit.List(items)
}

// ---------------------------------------------------------------------------
// parent

func runChunks(hs []hist19, seed int64) ([]result19, error) {
	exe, err := os.Executable()
	if err != nil {
		return nil, err
	}
	_ = os.MkdirAll("/tmp/srv", 0o755)
	dir, err := os.MkdirTemp("/tmp/srv", "c19-")
	if err != nil {
		return nil, err
	}
	defer os.RemoveAll(dir)
	nw := 14
	if nw > len(hs) {
		nw = len(hs)
	}
	// round-robin so that every child gets a similar mix
	chunks := make([][]hist19, nw)
	idx := make([][]int, nw)
	for i, h := range hs {
		chunks[i%nw] = append(chunks[i%nw], h)
		idx[i%nw] = append(idx[i%nw], i)
	}
	res := make([]result19, len(hs))
	errs := make([]error, nw)
	var wg sync.WaitGroup
	for k := 0; k < nw; k++ {
		wg.Add(1)
		go func(k int) {
			defer wg.Done()
			cd := filepath.Join(dir, fmt.Sprint(k))
			_ = os.MkdirAll(cd, 0o755)
			b, _ := json.Marshal(chunks[k])
			cf := filepath.Join(cd, "chunk.json")
			if err := os.WriteFile(cf, b, 0o644); err != nil {
				errs[k] = err
				return
			}
			cmd := exec.Command(exe, "C19child", "-seed", fmt.Sprint(seed*1000+int64(k)), "-out", cd)
			cmd.Env = append(os.Environ(), "C19_CHUNK="+cf)
			var eb bytes.Buffer
			cmd.Stderr, cmd.Stdout = &eb, &eb
			if err := cmd.Run(); err != nil {
				errs[k] = fmt.Errorf("child %d: %v: %s", k, err, tail(eb.String(), 2000))
				return
			}
			rb, err := os.ReadFile(filepath.Join(cd, "result.json"))
			if err != nil {
				errs[k] = err
				return
			}
			var rs []result19
			if err := json.Unmarshal(rb, &rs); err != nil || len(rs) != len(chunks[k]) {
				errs[k] = fmt.Errorf("child %d: bad result (%v)", k, err)
				return
			}
			for j, r := range rs {
				res[idx[k][j]] = r
			}
		}(k)
	}
	wg.Wait()
	for _, e := range errs {
		if e != nil {
			return nil, e
		}
	}
	return res, nil
}

func runC19(c *Ctx) {
	g := c.Group("c19hist", []string{"IdpServer"}, "hcase", "check_hcases")
	gr := c.Group("c19restart", []string{"IdpServer"}, "rcase", "check_rcases")

	var hs []hist19
	hs = append(hs, directed19()...)
	hs = append(hs, faultSweep()...)
	nRandom, maxLen, nRestart := 330, 30, 16
	if c.Thorough() {
		nRandom, maxLen, nRestart = 2500, 40, 300
	}
	for i := 0; i < nRandom; i++ {
		hs = append(hs, genHistory(c.Rng, maxLen, false))
	}
	// names from a hostile alphabet (slashes, trailing slash, dot segments, percent signs, non-ASCII) for every
	// store-backed collection, in histories with listings and restarts: keys are /<kind>/<name>, and a name must
	// survive Put / Get / List / start-up unchanged
	nDirected := len(hs)
	for i := 0; i < nDirected; i++ {
		switch hs[i].Class {
		case "registration", "restart", "snapshot", "password_update", "body_vs_url", "deleted_session":
			hs = append(hs, renameHostile(hs[i], i))
		}
	}
	hostile := []hop19{putUser("alice", sp(pw1), 0), loginPw("alice", pw1), putSvc("a", md1), putSvc("b", md2),
		{Kind: "putshortcut", Name: "x", SP: e1}, {Kind: "putshortcut", Name: "y", SP: e2},
		{Kind: "listservices"}, {Kind: "listshortcuts"}, {Kind: "listusers"}, {Kind: "listsessions"},
		ssoCookie(e1, acs1, "S0"), ssoCookie(e2, acs2, "S0"), launchCk("x", "S0"), {Kind: "restart"},
		{Kind: "listservices"}, {Kind: "listshortcuts"}, {Kind: "listusers"}, {Kind: "listsessions"},
		ssoCookie(e1, acs1, "S0"), ssoCookie(e2, acs2, "S0"), launchCk("x", "S0"), launchCk("y", "S0"),
		{Kind: "getuser", Name: "alice"}, {Kind: "delservice", Name: "a"}, {Kind: "restart"}, {Kind: "listservices"},
		ssoCookie(e1, acs1, "S0"), ssoCookie(e2, acs2, "S0"), {Kind: "deluser", Name: "alice"}, {Kind: "delshortcut", Name: "x"},
		{Kind: "listusers"}, {Kind: "listshortcuts"}}
	for v := 0; v < len(hostileNames); v++ {
		h := renameHostile(hist19{Ops: hostile, Class: "hostile_names", RestartAt: 10}, v)
		hs = append(hs, h)
		hl := renameHostile(hist19{Ops: withListings(hostile), Class: "hostile_names", RestartAt: 30}, v)
		hs = append(hs, hl)
	}
	hs = append(hs, hist19{Ops: hostile, Class: "listings", RestartAt: 10})
	nHostile := 30
	if c.Thorough() {
		nHostile = 400
	}
	for i := 0; i < nHostile; i++ {
		h := genHistory(c.Rng, 20, false)
		h.RestartAt = 1 + c.Rng.Intn(len(h.Ops))
		hs = append(hs, renameHostile(h, i))
	}
	// the server built with every optional Option unset (default logger, ...): same histories, same replies
	for i := 0; i < nDirected; i++ {
		switch hs[i].Class {
		case "registration", "restart", "bad_credentials", "deleted_session", "expiry":
			h := hs[i]
			h.Minimal, h.Class = true, "minimal_options"
			hs = append(hs, h)
		}
	}
	for i := nDirected; i < len(hs); i += 7 {
		if hs[i].Class == "random" {
			hs[i].Minimal = true
		}
	}
	// restart refinement on the implementation: sampled insertion points (every position in thorough, on short histories)
	for i := 0; i < nRestart; i++ {
		h := genHistory(c.Rng, 14, false)
		h.Class = "restart_refinement"
		h.RestartAt = 1 + c.Rng.Intn(len(h.Ops))
		hs = append(hs, h)
	}
	// the known finding K3: two service ids with one entity ID (directed; restart exposes it)
	dupOps := []hop19{putUser("alice", sp(pw1), 0), loginPw("alice", pw1), putSvc("a", md1), putSvc("b", md1b),
		ssoCookie(e1, acs1b, "S0"), {Kind: "delservice", Name: "a"}, ssoCookie(e1, acs1b, "S0"), ssoCookie(e1, "", "S0")}
	hs = append(hs, hist19{Ops: dupOps, Class: "duplicate_entity", RestartAt: 6})
	// a store fault on the Put / Delete of a service (5xx, store unchanged): the running server must
	// keep answering as a server restarted over the same store would
	for kind := 1; kind <= 2; kind++ {
		hs = append(hs,
			hist19{Ops: []hop19{putUser("alice", sp(pw1), 0), loginPw("alice", pw1), putSvc("a", md1), {Kind: "putshortcut", Name: "x", SP: e1},
				{Kind: "delservice", Name: "a"}, ssoCookie(e1, acs1, "S0"), launchCk("x", "S0"), {Kind: "delservice", Name: "a"}, ssoCookie(e1, acs1, "S0")},
				Plan: []int{0, 0, 0, 0, 0, 0, 0, kind}, Class: "faulted_service_write", RestartAt: -2},
			hist19{Ops: []hop19{putUser("alice", sp(pw1), 0), loginPw("alice", pw1), putSvc("a", md1), putSvc("a", md2),
				ssoCookie(e1, acs1, "S0"), ssoCookie(e2, acs2, "S0"), putSvc("b", md2), ssoCookie(e2, acs2, "S0")},
				Plan: []int{0, 0, 0, 0, 0, 0, kind}, Class: "faulted_service_write", RestartAt: -2},
			hist19{Ops: []hop19{putUser("alice", sp(pw1), 0), loginPw("alice", pw1), putSvc("a", md1),
				ssoCookie(e1, acs1, "S0"), {Kind: "delservice", Name: "a"}, ssoCookie(e1, acs1, "S0")},
				Plan: []int{0, 0, 0, 0, kind}, Class: "faulted_service_write", RestartAt: -2})
	}
	// regression for fix F16: a store error on the previous-service lookup of PUT /services/{id}
	// must fail the request (it used to leave the replaced entity ID registered until restart)
	for kind := 1; kind <= 2; kind++ {
		hs = append(hs, hist19{Ops: []hop19{putUser("alice", sp(pw1), 0), loginPw("alice", pw1), putSvc("a", md1), putSvc("a", md2),
			ssoCookie(e1, acs1, "S0"), ssoCookie(e2, acs2, "S0"), putSvc("a", md2), ssoCookie(e1, acs1, "S0"), ssoCookie(e2, acs2, "S0")},
			Plan: []int{0, 0, 0, 0, 0, kind}, Class: "faulted_replace", RestartAt: 4})
	}
	if c.Thorough() {
		for i := 0; i < 40; i++ {
			h := genHistory(c.Rng, 16, true)
			h.RestartAt = 1 + c.Rng.Intn(len(h.Ops))
			hs = append(hs, h)
		}
	}

	res, err := runChunks(hs, c.Seed)
	if err != nil {
		fmt.Fprintln(os.Stderr, "C19:", err)
		os.Exit(2)
	}
	for i, h := range hs {
		r := res[i]
		key := map[string]string{"class": h.Class}
		if r.Dup {
			key["history_class"] = "duplicate_entity_id"
		}
		ops := make([]string, len(h.Ops))
		obs := make([]string, len(h.Ops))
		panicked := ""
		nAssert := 0
		for j, o := range h.Ops {
			ops[j] = opTerm(o)
			obs[j] = obsTerm(r.Obs[j])
			c.Count("op/" + o.Kind)
			if o.Kind != "advance" && o.Kind != "restart" {
				c.Count(fmt.Sprintf("reply/%s/%d", r.Obs[j].Body, r.Obs[j].Status))
			}
			if r.Obs[j].Body == "assertion" {
				nAssert++
			}
			if r.Obs[j].Panic != "" && panicked == "" {
				panicked = fmt.Sprintf("op %d (%s): %s", j, o.Kind, r.Obs[j].Panic)
			}
			if o.Kind == "sso" || o.Kind == "launch" || o.Kind == "login" {
				switch {
				case o.User != "" && o.Cookie != nil:
					c.Count("creds/password+cookie")
				case o.User != "":
					c.Count("creds/password")
				case o.Cookie != nil:
					c.Count("creds/cookie")
				default:
					c.Count("creds/none")
				}
			}
		}
		c.Count("class/" + h.Class)
		nf := 0
		for _, x := range h.Plan {
			if x != 0 {
				nf++
			}
		}
		c.Count(fmt.Sprintf("faults/%d", min(nf, 3)))
		c.Count(fmt.Sprintf("assertions_in_history/%d", min(nAssert, 5)))
		cs := &Case{Key: key, Input: map[string]any{"ops": h.Ops, "fault_plan": h.Plan, "store_calls": r.StoreCalls},
			Obs:     r.Obs,
			Term:    fmt.Sprintf("{| hc_now := 0; hc_ops := %s; hc_plan := %s; hc_obs := %s |}", emit.List(ops), planTerm(h.Plan), emit.List(obs)),
			Trivial: nAssert == 0}
		if panicked != "" {
			cs.ImplSpecOK = Bptr(false)
			cs.Note = "handler panicked: " + panicked
		}
		c.Add(g, cs)
		if r.RestartIdx >= 0 && r.ObsRestart != nil {
			var a, b []string
			for j := r.RestartIdx; j < len(h.Ops); j++ {
				a = append(a, obsTerm(r.Obs[j]))
				b = append(b, obsTerm(r.ObsRestart[j]))
			}
			c.Count("restart_refinement/compared")
			c.Add(gr, &Case{Key: key, Input: map[string]any{"ops": h.Ops, "fault_plan": h.Plan, "restart_inserted_before_op": r.RestartIdx},
				Obs:  map[string]any{"original_tail": r.Obs[r.RestartIdx:], "restarted_tail": r.ObsRestart[r.RestartIdx:]},
				Term: fmt.Sprintf("{| rc_obs_orig := %s; rc_obs_restarted := %s |}", emit.List(a), emit.List(b))})
		}
	}
}
