// vhsrv — correspondence harness for the bundled IdP server (C19, C20).
package main

import . "verifharness/internal/core"

func main() { Main() }
