package main

import (
	"bytes"
	"strconv"
	"time"
	. "verifharness/internal/core"

	"fmt"
	"math"
	"strings"

	"github.com/crewjam/saml"

	"verifharness/internal/emit"
	"verifharness/internal/mdcases"
)

func init() { props["C15"] = runC15 }

func runC15(c *Ctx) {
	c15Durations(c)
	c15Instants(c)
	mdcases.C15Metadata(c)
}

func durMarshal(d int64) (res *string, panicked bool) {
	defer func() {
		if r := recover(); r != nil {
			panicked = true
		}
	}()
	b, err := saml.Duration(d).MarshalText()
	if err != nil {
		return nil, true
	}
	if m := durWatch.next(b); m != "" {
		marshalAliased = m
	}
	if b == nil {
		return nil, false
	}
	s := string(b)
	return &s, false
}

func durUnmarshal(s *string) (res *int64) {
	defer func() {
		if r := recover(); r != nil {
			res = nil
		}
	}()
	var d saml.Duration
	var text []byte
	if s != nil {
		text = []byte(*s)
	}
	err := d.UnmarshalText(text)
	// the same text into a variable that already holds a value (a reused struct field, a second
	// document decoded into the same object): the result must not depend on what was there
	for _, before := range []saml.Duration{saml.Duration(90 * time.Second), saml.Duration(-1), durReused} {
		d2 := before
		err2 := d2.UnmarshalText(text)
		if (err == nil) != (err2 == nil) || (err == nil && d2 != d) {
			durReuseMismatch = fmt.Sprintf("text %q: into a zero variable (%v, err=%v), into one holding %d (%v, err=%v)", text, int64(d), err, int64(before), int64(d2), err2)
		}
	}
	if err != nil {
		return nil
	}
	durReused = d
	v := int64(d)
	return &v
}

// durReused is the last successfully parsed value; durReuseMismatch records a parse whose result depended
// on the previous content of the receiver (cleared by whoever reports it).
var (
	durReused        saml.Duration
	durReuseMismatch string
)

// aliasWatch keeps the bytes returned by an earlier MarshalText alive and reports if a later call changed them.
type aliasWatch struct {
	prev, want []byte
}

func (w *aliasWatch) next(b []byte) string {
	msg := ""
	if w.prev != nil && !bytes.Equal(w.prev, w.want) {
		msg = fmt.Sprintf("an earlier MarshalText result changed from %q to %q when a later value was marshalled", w.want, w.prev)
	}
	w.prev, w.want = b, append([]byte{}, b...)
	return msg
}

var durWatch, timeWatch aliasWatch
var marshalAliased string

func c15Durations(c *Ctx) {
	gm := c.Group("durm", []string{"DurationModel"}, "mcase", "check_mcases")
	gu := c.Group("duru", []string{"DurationModel"}, "ucase", "check_ucases")

	addM := func(d int64, class string) {
		text, _ := durMarshal(d)
		rt := durUnmarshal(text)
		c.Count("dur_marshal/" + class)
		c.Add(gm, flagHistory(&Case{
			Key:     map[string]string{"op": "duration_roundtrip", "class": class},
			Input:   map[string]any{"d": fmt.Sprint(d)},
			Obs:     map[string]any{"text": text, "roundtrip": rt},
			Term:    fmt.Sprintf("{| mc_d := %s; mc_text := %s; mc_rt := %s |}", emit.Z(d), emit.OptStr(text), emit.OptZ(rt)),
			Trivial: d == 0,
		}))
	}
	addU := func(s *string, class string) {
		res := durUnmarshal(s)
		c.Count("dur_unmarshal/" + class)
		k := "err"
		if res != nil {
			k = "ok"
		}
		c.Count("dur_unmarshal_result/" + k)
		c.Add(gu, flagHistory(&Case{
			Key:     map[string]string{"op": "duration_parse", "class": class},
			Input:   map[string]any{"text": s},
			Obs:     map[string]any{"result": res},
			Term:    fmt.Sprintf("{| uc_text := %s; uc_res := %s |}", emit.OptStr(s), emit.OptZ(res)),
			Trivial: res == nil && s != nil && !strings.Contains(*s, "P"),
		}))
	}

	// boundary classes
	const sec = int64(1e9)
	bounds := []int64{0, 1, -1, 2, 9, 10, 11, 263669287, sec - 1, sec, sec + 1, 59*sec + 999999999, 60 * sec, 60*sec + 1,
		3599*sec + 999999999, 3600 * sec, 3600*sec + 1, 3661 * sec, 24 * 3600 * sec, 10 * sec, 20 * sec, 50 * sec, 600 * sec, 36000 * sec,
		math.MaxInt64, math.MaxInt64 - 1, math.MinInt64, math.MinInt64 + 1, 100 * 3600 * sec, 1000000 * 3600 * sec}
	p := int64(1)
	for i := 0; i < 19; i++ {
		bounds = append(bounds, p-1, p, p+1)
		p *= 10
	}
	for _, d := range bounds {
		addM(d, "boundary")
		if d != math.MinInt64 {
			addM(-d, "boundary")
		}
	}
	// every second value 0..120 (carries, trailing zeros of whole seconds), with and without a fraction
	for s := int64(0); s <= 120; s++ {
		addM(s*sec, "whole_seconds")
		addM(s*sec+500000000, "half_seconds")
		addM(s*60*sec, "whole_minutes")
	}
	// three-digit fractions x magnitudes
	nfrac := 1000
	if !c.Thorough() {
		nfrac = 200
	}
	for i := 0; i < nfrac; i++ {
		f := int64(i)
		if !c.Thorough() {
			f = c.Rng.Int63n(1000)
		}
		for _, mag := range []int64{1, 1000, 1000000} {
			addM(f*mag, "fraction3")
		}
	}
	// random
	n := 3000
	if c.Thorough() {
		n = 60000
	}
	for i := 0; i < n; i++ {
		var d int64
		switch c.Rng.Intn(5) {
		case 0:
			d = int64(c.Rng.Uint64())
		case 1:
			d = c.Rng.Int63n(sec)
		case 2:
			d = c.Rng.Int63n(3600 * sec)
		case 3:
			d = c.Rng.Int63n(1000*3600*sec) / 1000 * 1000
		default:
			d = -c.Rng.Int63n(100 * 3600 * sec)
		}
		addM(d, "random")
	}

	// unmarshal: grammar generated and mutated strings
	addU(nil, "nil")
	fixed := []string{"", "P", "PT", "-PT", "-P", "P1Y", "P1M", "P1D", "PT1H", "PT1M", "PT1S", "PT1.5S", "P1Y2M3DT4H5M6.7S", "PT5", "P1YT",
		"PT1.S", "PT.5S", "PT1.1234567899S", "PT0.263669287S", "PT99999999999999999999S", "P9223372036854775807Y", "P9223372036854775808Y",
		"P292Y", "P293Y", "P106751D", "P106752D", "PT2562047H47M16.854775807S", "PT2562047H47M16.854775808S", "-PT2562047H47M16.854775808S",
		"P1M1Y", "P1D1M", "PT1M1H", "PT1S1M", "p1D", "P1d", "P 1D", "P1D ", " P1D", "P1DT", "P1DT1", "PT1H\n", "P1D\n", "PT\n", "PT1S\n", "PT\nS",
		"+P1D", "--P1D", "P-1D", "P1.5D", "PT1.5H", "PT1,5S", "P01D", "P001Y", "PT00S", "PT0S", "P0D", "PT1H2H", "P1Y1Y", "PT1.0S", "PT1.000000000S",
		"PT1.0000000001S", "PT0.9999999999S", "PT9223372036S", "PT9223372037S", "PT9223372036854775807S", "P1Y2M", "P2M3D", "P1Y3D", "PT4H6S",
		"P\xff", "PT\xffS", "PT1\xc3\xa9S", "P1YT1H", "PTS", "PTH", "PTM", "PY", "PD", "PTT1S", "PT1ST", "P1DT1D"}
	for _, s := range fixed {
		s := s
		addU(&s, "fixed")
	}
	// strings written from known components (decimal, possibly zero-padded, values far from overflow):
	// the value they denote is computed from the components, not by parsing, and decides the case
	nk := 600
	if c.Thorough() {
		nk = 8000
	}
	for i := 0; i < nk; i++ {
		txt, want := genKnownDuration(c)
		res := durUnmarshal(&txt)
		ok := res != nil && *res == want
		c.Count("dur_unmarshal/known-components")
		c.Add(gu, flagHistory(&Case{
			Key:        map[string]string{"op": "duration_parse", "class": "known-components"},
			Input:      map[string]any{"text": txt, "denotes_ns": want},
			Obs:        map[string]any{"result": res},
			Term:       fmt.Sprintf("{| uc_text := %s; uc_res := %s |}", emit.OptStr(&txt), emit.OptZ(res)),
			ImplSpecOK: &ok,
		}))
	}
	nu := 1500
	if c.Thorough() {
		nu = 20000
	}
	for i := 0; i < nu; i++ {
		s := genDurString(c)
		class := "grammar"
		if c.Rng.Intn(3) == 0 {
			s = mutateString(c, s, "PTYMDHS0123456789.-+ \n")
			class = "mutated"
		}
		addU(&s, class)
	}
}

// genKnownDuration writes a duration from random components and returns the text together with the
// number of nanoseconds it denotes (year = 365 days, month = 30 days, as the package documents).
func genKnownDuration(c *Ctx) (string, int64) {
	const sec = int64(1e9)
	num := func(max int) (string, int64) {
		v := c.Rng.Intn(max)
		switch c.Rng.Intn(6) {
		case 0:
			v = []int{0, 7, 8, 9, 10, 77, 80, 99, 100, 777, 800}[c.Rng.Intn(11)]
		}
		s := fmt.Sprint(v)
		switch c.Rng.Intn(4) {
		case 0:
			s = "0" + s
		case 1:
			s = strings.Repeat("0", 1+c.Rng.Intn(4)) + s
		}
		return s, int64(v)
	}
	var sb strings.Builder
	var total int64
	sign := int64(1)
	if c.Rng.Intn(4) == 0 {
		sb.WriteString("-")
		sign = -1
	}
	sb.WriteString("P")
	any := false
	for _, u := range []struct {
		l  string
		ns int64
	}{{"Y", 365 * 24 * 3600 * sec}, {"M", 30 * 24 * 3600 * sec}, {"D", 24 * 3600 * sec}} {
		if c.Rng.Intn(3) == 0 {
			t, v := num(100)
			sb.WriteString(t + u.l)
			total += v * u.ns
			any = true
		}
	}
	if !any || c.Rng.Intn(2) == 0 {
		sb.WriteString("T")
		anyT := false
		for _, u := range []struct {
			l  string
			ns int64
		}{{"H", 3600 * sec}, {"M", 60 * sec}} {
			if c.Rng.Intn(2) == 0 {
				t, v := num(1000)
				sb.WriteString(t + u.l)
				total += v * u.ns
				anyT = true
			}
		}
		if !anyT || c.Rng.Intn(2) == 0 {
			t, v := num(1000)
			sb.WriteString(t)
			total += v * sec
			if c.Rng.Intn(2) == 0 {
				nd := 1 + c.Rng.Intn(9)
				frac := ""
				for k := 0; k < nd; k++ {
					frac += string(byte('0' + c.Rng.Intn(10)))
				}
				sb.WriteString("." + frac)
				ns, _ := strconv.ParseInt(frac+strings.Repeat("0", 9-nd), 10, 64)
				total += ns
			}
			sb.WriteString("S")
		}
	}
	return sb.String(), sign * total
}

func genNum(c *Ctx) string {
	switch c.Rng.Intn(8) {
	case 0:
		return "0"
	case 1:
		return fmt.Sprint(c.Rng.Int63())
	case 2:
		return "0" + fmt.Sprint(c.Rng.Intn(100))
	case 3:
		return fmt.Sprint(c.Rng.Int63n(300000))
	case 4:
		return "9223372036854775807"
	case 5:
		return "9223372036854775808"
	default:
		return fmt.Sprint(c.Rng.Intn(100))
	}
}

func genDurString(c *Ctx) string {
	var sb strings.Builder
	if c.Rng.Intn(4) == 0 {
		sb.WriteString("-")
	}
	sb.WriteString("P")
	for _, l := range []string{"Y", "M", "D"} {
		if c.Rng.Intn(3) == 0 {
			sb.WriteString(genNum(c) + l)
		}
	}
	if c.Rng.Intn(3) != 0 {
		sb.WriteString("T")
		for _, l := range []string{"H", "M"} {
			if c.Rng.Intn(2) == 0 {
				sb.WriteString(genNum(c) + l)
			}
		}
		if c.Rng.Intn(2) == 0 {
			sb.WriteString(genNum(c))
			if c.Rng.Intn(2) == 0 {
				sb.WriteString(".")
				nd := 1 + c.Rng.Intn(12)
				for k := 0; k < nd; k++ {
					sb.WriteByte(byte('0' + c.Rng.Intn(10)))
				}
			}
			sb.WriteString("S")
		}
	}
	return sb.String()
}

func mutateString(c *Ctx, s string, alphabet string) string {
	b := []byte(s)
	n := 1 + c.Rng.Intn(2)
	for k := 0; k < n; k++ {
		switch c.Rng.Intn(4) {
		case 0: // delete
			if len(b) > 0 {
				i := c.Rng.Intn(len(b))
				b = append(b[:i], b[i+1:]...)
			}
		case 1: // insert
			i := c.Rng.Intn(len(b) + 1)
			ch := alphabet[c.Rng.Intn(len(alphabet))]
			b = append(b[:i], append([]byte{ch}, b[i:]...)...)
		case 2: // replace
			if len(b) > 0 {
				b[c.Rng.Intn(len(b))] = alphabet[c.Rng.Intn(len(alphabet))]
			}
		default: // swap
			if len(b) > 1 {
				i := c.Rng.Intn(len(b) - 1)
				b[i], b[i+1] = b[i+1], b[i]
			}
		}
	}
	return string(b)
}

// flagHistory marks a case whose result depended on history: a receiver that already held a value, or an
// earlier result whose bytes changed under its holder.
func flagHistory(cs *Case) *Case {
	if durReuseMismatch != "" {
		f := false
		cs.ImplSpecOK, cs.Note = &f, "result depends on the previous content of the receiver: "+durReuseMismatch
		durReuseMismatch = ""
	}
	if marshalAliased != "" {
		f := false
		cs.ImplSpecOK, cs.Note = &f, marshalAliased
		marshalAliased = ""
	}
	return cs
}
