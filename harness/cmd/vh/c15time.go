package main

import (
	. "verifharness/internal/core"

	"fmt"
	"math/big"
	"strings"
	"time"

	"github.com/crewjam/saml"

	"verifharness/internal/emit"
)

// instantZ renders a time.Time as Z nanoseconds since the Unix epoch (exact; int64 would overflow).
func instantZ(t time.Time) string {
	b := new(big.Int).Mul(big.NewInt(t.Unix()), big.NewInt(1e9))
	b.Add(b, big.NewInt(int64(t.Nanosecond())))
	return emit.ZBig(b.String())
}

func relaxedParse(s string) (res *time.Time) {
	defer func() {
		if r := recover(); r != nil {
			res = nil
		}
	}()
	var rt saml.RelaxedTime
	if err := rt.UnmarshalText([]byte(s)); err != nil {
		return nil
	}
	t := time.Time(rt)
	return &t
}

func optInstant(t *time.Time) string {
	if t == nil {
		return "None"
	}
	return "(Some " + instantZ(*t) + ")"
}

func c15Instants(c *Ctx) {
	gf := c.Group("timef", []string{"TimeModel"}, "fcase", "check_fcases")
	gp := c.Group("timep", []string{"TimeModel"}, "pcase", "check_pcases")

	addF := func(t time.Time, class string) {
		text := saml.RelaxedTime(t).String()
		mb, _ := saml.RelaxedTime(t).MarshalText()
		if m := timeWatch.next(mb); m != "" {
			marshalAliased = m
		}
		if string(mb) != text {
			text = string(mb)
		}
		rt := relaxedParse(text)
		c.Count("time_format/" + class)
		var rts any
		if rt != nil {
			rts = rt.UTC().Format(time.RFC3339Nano)
		}
		c.Add(gf, flagHistory(&Case{
			Key:   map[string]string{"op": "instant_roundtrip", "class": class},
			Input: map[string]any{"t": t.UTC().Format(time.RFC3339Nano)},
			Obs:   map[string]any{"text": text, "roundtrip": rts},
			Term:  fmt.Sprintf("{| fc_t := %s; fc_text := %s; fc_rt := %s |}", instantZ(t), emit.Str(text), optInstant(rt)),
		}))
	}
	addP := func(s string, class string) {
		res := relaxedParse(s)
		c.Count("time_parse/" + class)
		k := "err"
		var rs any
		if res != nil {
			k = "ok"
			rs = res.UTC().Format(time.RFC3339Nano)
		}
		c.Count("time_parse_result/" + k)
		c.Add(gp, &Case{
			Key:     map[string]string{"op": "instant_parse", "class": class},
			Input:   map[string]any{"text": s},
			Obs:     map[string]any{"result": rs},
			Term:    fmt.Sprintf("{| pc_text := %s; pc_res := %s |}", emit.Str(s), optInstant(res)),
			Trivial: res == nil && len(s) < 10,
		})
	}

	years := []int{1, 2, 4, 100, 400, 1582, 1600, 1900, 1969, 1970, 2000, 2001, 2024, 2038, 2100, 2262, 2263, 9999}
	nss := []int{0, 1, 499999, 500000, 500001, 999999, 1000000, 123000000, 120000000, 100000000, 999499999, 999500000, 999999999}
	type md struct{ m, d int }
	mds := []md{{1, 1}, {1, 31}, {2, 28}, {2, 29}, {3, 1}, {4, 30}, {6, 15}, {12, 31}}
	for _, y := range years {
		for _, x := range mds {
			for i, ns := range nss {
				if !c.Thorough() && (i+y+x.m)%3 != 0 {
					continue
				}
				hh, mi, ss := 0, 0, 0
				switch (i + x.d) % 3 {
				case 1:
					hh, mi, ss = 23, 59, 59
				case 2:
					hh, mi, ss = 12, 30, 7
				}
				t := time.Date(y, time.Month(x.m), x.d, hh, mi, ss, ns, time.UTC)
				if t.Round(time.Millisecond).Year() > 9999 {
					continue
				}
				addF(t, "edges")
			}
		}
	}
	n := 1500
	if c.Thorough() {
		n = 40000
	}
	lo := time.Date(1, 1, 1, 0, 0, 0, 0, time.UTC).Unix()
	hi := time.Date(9999, 12, 31, 23, 59, 59, 0, time.UTC).Unix()
	for i := 0; i < n; i++ {
		sec := lo + c.Rng.Int63n(hi-lo)
		ns := c.Rng.Int63n(1e9)
		if c.Rng.Intn(4) == 0 {
			ns = int64(c.Rng.Intn(1000)) * 1e6
		}
		t := time.Unix(sec, ns)
		if c.Rng.Intn(3) == 0 { // a non-UTC location must not matter
			t = t.In(time.FixedZone("x", (c.Rng.Intn(105)-48)*900))
		}
		addF(t, "random")
	}

	// parsing: lexical forms
	fixed := []string{"", "2015-12-01T01:57:09Z", "2015-12-01T01:57:09.123Z", "2015-12-01T01:57:09.123456789Z", "2015-12-01T01:57:09.1234567891234Z",
		"2015-12-01T01:57:09.9995Z", "2015-12-01T23:59:59.9995Z", "2015-12-31T23:59:59.9996Z", "2015-12-01T01:57:09,5Z", "2015-12-01T01:57:09.Z",
		"2015-12-01T01:57:09", "2015-12-01T01:57:09.123", "2015-12-01T01:57:09+01:00", "2015-12-01T01:57:09-01:00", "2015-12-01T01:57:09+24:00",
		"2015-12-01T01:57:09+25:00", "2015-12-01T01:57:09+00:60", "2015-12-01T01:57:09+00:61", "2015-12-01T01:57:09+0100", "2015-12-01T01:57:09+01",
		"2015-12-01T1:57:09Z", "2015-12-01T01:7:09Z", "2015-12-01T01:57:9Z", "2015-12-1T01:57:09Z", "2015-1-01T01:57:09Z", "215-12-01T01:57:09Z",
		"12015-12-01T01:57:09Z", "2015-12-01t01:57:09Z", "2015-12-01T01:57:09z", "2015-12-01 01:57:09Z", "2015-12-01T24:00:00Z", "2015-12-01T23:60:00Z",
		"2015-12-01T23:59:60Z", "2015-02-29T00:00:00Z", "2016-02-29T00:00:00Z", "1900-02-29T00:00:00Z", "2000-02-29T00:00:00Z", "2015-04-31T00:00:00Z",
		"2015-13-01T00:00:00Z", "2015-00-01T00:00:00Z", "2015-01-00T00:00:00Z", "2015-01-32T00:00:00Z", "0000-01-01T00:00:00Z", "0001-01-01T00:00:00Z",
		"9999-12-31T23:59:59.999Z", "9999-12-31T23:59:59.9995Z", "2015-12-01T01:57:09Z ", " 2015-12-01T01:57:09Z", "2015-12-01T01:57:09ZZ", "2015-12-01T01:57:09Z+01:00",
		"2015-12-01T01:57:09.123+05:30", "2015-12-01T01:57:09.123-12:00", "2015-12-01T01:57:09 +01:00", "2015-12-01", "T01:57:09Z", "2015-12-01T01:57Z",
		"2015-12-01T01:57:09.5", "2015-12-01T01:57:09,5", "2015-12-01T01:57:09.", "2015-12-01T01:57:09.x", "2015-12-01T01:57:09.5x", "2015-12-01T01:57:09x",
		"2015-12-01T01:57:09\xc3\xa9", "+015-12-01T01:57:09Z", "2015-12-01T-1:57:09Z", "2015-12-01T01:57:09*01:00", "2015-12-01T01:57:09+1:00", "2015-12-01T01:57:09+01:0",
		"2015-12-01T01:57:09+a1:00", "2015-12-01T01:57:09+01:a0", "2015-12-01T9Z", "2015-12-01T9:00:00Z", "2015-12-01T09:00:00.000Z", "2015-12-01T09:00:00.0000000000001Z"}
	for _, s := range fixed {
		addP(s, "fixed")
	}
	// all zone offsets -12:00..+14:00 in 15 minute steps
	for off := -12 * 60; off <= 14*60; off += 15 {
		if !c.Thorough() && off%60 != 0 && c.Rng.Intn(3) != 0 {
			continue
		}
		sign := "+"
		o := off
		if o < 0 {
			sign = "-"
			o = -o
		}
		addP(fmt.Sprintf("2024-02-29T12:34:56.789%s%02d:%02d", sign, o/60, o%60), "zones")
		addP(fmt.Sprintf("0001-01-01T00:00:00%s%02d:%02d", sign, o/60, o%60), "zones")
	}
	np := 1500
	if c.Thorough() {
		np = 30000
	}
	for i := 0; i < np; i++ {
		s := genTimeString(c)
		class := "grammar"
		if c.Rng.Intn(3) == 0 {
			s = mutateString(c, s, "0123456789-:TZ.+, tz")
			class = "mutated"
		}
		addP(s, class)
	}
}

func genTimeString(c *Ctx) string {
	var sb strings.Builder
	y := []int{1, 1970, 2000, 2015, 2024, 2100, 9999, c.Rng.Intn(10000)}[c.Rng.Intn(8)]
	mo := 1 + c.Rng.Intn(12)
	d := 1 + c.Rng.Intn(31)
	if c.Rng.Intn(4) != 0 && d > 28 {
		d = 28
	}
	fmt.Fprintf(&sb, "%04d-%02d-%02dT", y, mo, d)
	h := c.Rng.Intn(24)
	if c.Rng.Intn(10) == 0 {
		fmt.Fprintf(&sb, "%d", h)
	} else {
		fmt.Fprintf(&sb, "%02d", h)
	}
	fmt.Fprintf(&sb, ":%02d:%02d", c.Rng.Intn(60), c.Rng.Intn(60))
	switch c.Rng.Intn(4) {
	case 0:
	default:
		sep := "."
		if c.Rng.Intn(10) == 0 {
			sep = ","
		}
		sb.WriteString(sep)
		nd := 1 + c.Rng.Intn(12)
		for k := 0; k < nd; k++ {
			dg := c.Rng.Intn(10)
			if c.Rng.Intn(3) == 0 {
				dg = []int{0, 4, 5, 9}[c.Rng.Intn(4)]
			}
			sb.WriteByte(byte('0' + dg))
		}
	}
	switch c.Rng.Intn(5) {
	case 0:
	case 1, 2:
		sb.WriteString("Z")
	default:
		sign := "+"
		if c.Rng.Intn(2) == 0 {
			sign = "-"
		}
		fmt.Fprintf(&sb, "%s%02d:%02d", sign, c.Rng.Intn(15), []int{0, 15, 30, 45, 59}[c.Rng.Intn(5)])
	}
	return sb.String()
}
