package main

import (
	. "verifharness/internal/core"

	"bytes"
	"crypto"
	"crypto/aes"
	"crypto/cipher"
	"crypto/des"
	"crypto/rand"
	"crypto/rsa"
	"crypto/sha1"
	"crypto/sha256"
	"crypto/sha512"
	"crypto/x509"
	"crypto/x509/pkix"
	"encoding/base64"
	"fmt"
	"hash"
	"io"
	"math/big"
	"strings"
	"time"

	"github.com/beevik/etree"
	"github.com/crewjam/saml/xmlenc"
	"golang.org/x/crypto/ripemd160"

	"verifharness/internal/emit"
	"verifharness/internal/fix"
)

func init() {
	props["C10"] = runC10
	props["C11"] = runC11
}

// ---------- algorithm tables (harness side) ----------
type balg struct {
	name   string // Coq constructor
	uri    string
	ks, bs int
	gcm    bool
	impl   xmlenc.BlockCipher
	tag    byte
}

var balgs = []balg{
	{"Aes128Cbc", "http://www.w3.org/2001/04/xmlenc#aes128-cbc", 16, 16, false, xmlenc.AES128CBC, 1},
	{"Aes192Cbc", "http://www.w3.org/2001/04/xmlenc#aes192-cbc", 24, 16, false, xmlenc.AES192CBC, 2},
	{"Aes256Cbc", "http://www.w3.org/2001/04/xmlenc#aes256-cbc", 32, 16, false, xmlenc.AES256CBC, 3},
	{"TripleDesCbc", "http://www.w3.org/2001/04/xmlenc#tripledes-cbc", 24, 8, false, xmlenc.TripleDES, 4},
	{"Aes128Gcm", "http://www.w3.org/2009/xmlenc11#aes128-gcm", 16, 16, true, xmlenc.AES128GCM, 5},
}

func balgByURI(u string) *balg {
	for i := range balgs {
		if balgs[i].uri == u {
			return &balgs[i]
		}
	}
	return nil
}

func (a *balg) block(key []byte) cipher.Block {
	var b cipher.Block
	var err error
	if a.bs == 8 {
		b, err = des.NewTripleDESCipher(key)
	} else {
		b, err = aes.NewCipher(key)
	}
	if err != nil {
		panic(err)
	}
	return b
}

type talg struct {
	name string
	uri  string
	tag  byte
}

var talgs = []talg{
	{"OaepMgf1p", "http://www.w3.org/2001/04/xmlenc#rsa-oaep-mgf1p", 1},
	{"Oaep11", "http://www.w3.org/2009/xmlenc11#rsa-oaep", 2},
	{"Pkcs1v15", "http://www.w3.org/2001/04/xmlenc#rsa-1_5", 3},
}

func talgByURI(u string) *talg {
	for i := range talgs {
		if talgs[i].uri == u {
			return &talgs[i]
		}
	}
	return nil
}

type dalg struct {
	uri string
	h   func() hash.Hash
	ch  crypto.Hash
	dm  xmlenc.DigestMethod
}

var dalgs = []dalg{
	{"http://www.w3.org/2000/09/xmldsig#sha1", sha1.New, crypto.SHA1, xmlenc.SHA1},
	{"http://www.w3.org/2000/09/xmldsig#sha256", sha256.New, crypto.SHA256, xmlenc.SHA256},
	{"http://www.w3.org/2000/09/xmldsig#sha512", sha512.New, crypto.SHA512, xmlenc.SHA512},
	{"http://www.w3.org/2000/09/xmldsig#ripemd160", ripemd160.New, crypto.RIPEMD160, xmlenc.RIPEMD160},
}

func dalgByURI(u string) *dalg {
	for i := range dalgs {
		if dalgs[i].uri == u {
			return &dalgs[i]
		}
	}
	return nil
}

// ---------- abstract element mirrored as XML ----------
type cvKind int

const (
	cvAbsent cvKind = iota
	cvBad
	cvBytes
	cvNoValue   // CipherData present but empty
	cvReference // CipherData holding a CipherReference instead of a CipherValue (schema-legal)
)

type certKind int

const (
	certAbsent certKind = iota
	certBadPem
	certBadDer
	certNonRsa
	certRsa
)

type eel struct {
	method  *string // nil: no EncryptionMethod element
	dg      *string // nil: no DigestMethod
	cert    certKind
	certID  int // 1 = rsa_a, 2 = rsa_b
	cv      cvKind
	cvBytes []byte
	cvWS    bool // surround the base64 with white space (TrimSpace is applied by the code)
	inner   *eel
	prefix  bool // render with xenc:/ds: prefixes or in default namespaces
	alt     bool // with prefix: use the prefixes enc: / dsig: instead (a peer is free to choose its prefixes)
	lead    int  // an X509Data WITHOUT certificate before the one that holds it: 1 subject name, 2 issuer serial, 3 empty
	form    int  // lexical form of an unusable certificate text (certBadPem / certBadDer): see xml()
	chain   int  // further certificates after the first one (the recipient's issuer chain): 1 in the same X509Data, 2 in a second X509Data; only the first certificate is the recipient hint
}

func strp(s string) *string { return &s }

func (e *eel) coq() string {
	m := "None"
	if e.method != nil {
		m = "(Some " + emit.Str(*e.method) + ")"
	}
	dg := "DgAbsent"
	if e.dg != nil {
		dg = "(DgUri " + emit.Str(*e.dg) + ")"
	}
	cert := map[certKind]string{certAbsent: "CertAbsent", certBadPem: "CertBadPem", certBadDer: "CertBadDer", certNonRsa: "CertNonRsa"}[e.cert]
	if e.cert == certRsa {
		cert = fmt.Sprintf("(CertRsa %d)", e.certID)
	}
	cv := "CVAbsent"
	switch e.cv {
	case cvBad:
		cv = "CVBad"
	case cvBytes:
		cv = "(CVBytes " + emit.Bytes(e.cvBytes) + ")"
	}
	inner := "None"
	if e.inner != nil {
		inner = "(Some " + e.inner.coq() + ")"
	}
	return fmt.Sprintf("(EEl %s %s %s %s %s)", m, dg, cert, cv, inner)
}

func (e *eel) xml(tag string) *etree.Element {
	x, d := "", ""
	if e.prefix {
		x, d = "xenc:", "ds:"
		if e.alt {
			x, d = "enc:", "dsig:"
		}
	}
	el := etree.NewElement(x + tag)
	if e.prefix {
		el.CreateAttr("xmlns:"+strings.TrimSuffix(x, ":"), "http://www.w3.org/2001/04/xmlenc#")
		el.CreateAttr("xmlns:"+strings.TrimSuffix(d, ":"), "http://www.w3.org/2000/09/xmldsig#")
	} else {
		el.CreateAttr("xmlns", "http://www.w3.org/2001/04/xmlenc#")
	}
	if e.method != nil {
		em := el.CreateElement(x + "EncryptionMethod")
		if *e.method != "\x00absent" {
			em.CreateAttr("Algorithm", *e.method)
		}
		if e.dg != nil {
			dm := em.CreateElement(d + "DigestMethod")
			dm.CreateAttr("Algorithm", *e.dg)
		}
	}
	if e.inner != nil || e.cert != certAbsent {
		ki := el.CreateElement(d + "KeyInfo")
		if e.inner != nil {
			ki.AddChild(e.inner.xml("EncryptedKey"))
		}
		if e.cert != certAbsent {
			switch e.lead {
			case 1:
				ki.CreateElement(d + "X509Data").CreateElement(d + "X509SubjectName").SetText("CN=recipient")
			case 2:
				is := ki.CreateElement(d + "X509Data").CreateElement(d + "X509IssuerSerial")
				is.CreateElement(d + "X509IssuerName").SetText("CN=ca")
				is.CreateElement(d + "X509SerialNumber").SetText("4242")
			case 3:
				ki.CreateElement(d + "X509Data")
			}
			xd := ki.CreateElement(d + "X509Data")
			c := xd.CreateElement(d + "X509Certificate")
			switch e.cert {
			case certBadPem:
				switch e.form % 3 {
				case 0:
					c.SetText("!!!not base64!!!")
				case 1:
					c.SetText(fix.CertB64("rsa_a")[:41] + "*" + fix.CertB64("rsa_a")[42:])
				case 2:
					c.SetText("-----BEGIN CERTIFICATE-----")
				}
			case certBadDer:
				switch e.form % 6 {
				case 0:
					c.SetText(base64.StdEncoding.EncodeToString([]byte("this is not a DER certificate at all")))
				case 1: // present but empty
				case 2:
					c.SetText("\n   \t\n")
				case 3:
					c.CreateComment(" " + fix.CertB64("rsa_a") + " ")
				case 4: // the base64 inside a child element: the element's own text is empty
					c.CreateElement(d + "Value").SetText(fix.CertB64("rsa_a"))
				case 5:
					c.SetText(fix.CertB64("rsa_a")[:400])
				}
			case certNonRsa:
				c.SetText(fix.CertB64("ec_256"))
			case certRsa:
				if e.certID == 3 {
					c.SetText(twinCertB64())
				} else {
					c.SetText(fix.CertB64(map[int]string{1: "rsa_a", 2: "rsa_b"}[e.certID]))
				}
			}
			switch e.chain {
			case 1:
				xd.CreateElement(d + "X509Certificate").SetText(fix.CertB64("rsa_c"))
				xd.CreateElement(d + "X509Certificate").SetText(fix.CertB64("ec_256"))
			case 2:
				ki.CreateElement(d + "X509Data").CreateElement(d + "X509Certificate").SetText(fix.CertB64("rsa_c"))
			}
		}
	}
	if e.cv == cvNoValue || e.cv == cvReference {
		cd := el.CreateElement(x + "CipherData")
		if e.cv == cvReference {
			cd.CreateElement(x+"CipherReference").CreateAttr("URI", "http://example.org/cipher.bin")
		}
	} else if e.cv != cvAbsent {
		cd := el.CreateElement(x + "CipherData")
		v := cd.CreateElement(x + "CipherValue")
		switch e.cv {
		case cvBad:
			v.SetText("@@@ not base64 @@@")
		case cvBytes:
			s := base64.StdEncoding.EncodeToString(e.cvBytes)
			if e.cvWS {
				s = "\n  " + s + " \t\n"
			}
			v.SetText(s)
		}
	}
	return el
}

// ---------- primitive-call table ----------
type ptable struct{ entries []string }

func encArgs(tag byte, args ...[]byte) []byte {
	out := []byte{tag}
	for _, a := range args {
		out = append(out, byte(len(a)/256), byte(len(a)%256))
		out = append(out, a...)
	}
	return out
}

func (t *ptable) add(k, v []byte) {
	t.entries = append(t.entries, "("+emit.Bytes(k)+", "+emit.Bytes(v)+")")
}
func (t *ptable) coq() string { return emit.List(t.entries) }

func rawCBCDec(a *balg, key, iv, body []byte) []byte {
	out := make([]byte, len(body))
	cipher.NewCBCDecrypter(a.block(key), iv).CryptBlocks(out, body)
	return out
}
func rawCBCEnc(a *balg, key, iv, body []byte) []byte {
	out := make([]byte, len(body))
	cipher.NewCBCEncrypter(a.block(key), iv).CryptBlocks(out, body)
	return out
}

var rsaKeys = map[int]*rsa.PrivateKey{}

func rsaKey(id int) *rsa.PrivateKey {
	if k, ok := rsaKeys[id]; ok {
		return k
	}
	k := fix.RSAKey(map[int]string{1: "rsa_a", 2: "rsa_b"}[id])
	rsaKeys[id] = k
	return k
}

// refDecrypt walks the element the way the model does, only to record the
// results of the primitive calls (computed with the std library directly).
func refDecrypt(t *ptable, key any, e *eel) ([]byte, bool) {
	if e.method == nil {
		return nil, false
	}
	if ta := talgByURI(*e.method); ta != nil {
		id, ok := key.(int) // RSA key id
		if !ok || e.cv != cvBytes {
			return nil, false
		}
		if e.cert == certBadPem || e.cert == certBadDer || e.cert == certNonRsa || (e.cert == certRsa && e.certID != id) {
			return nil, false
		}
		d := "http://www.w3.org/2000/09/xmldsig#sha1"
		if e.dg != nil {
			d = *e.dg
		}
		da := dalgByURI(d)
		if da == nil {
			return nil, false
		}
		var out []byte
		var err error
		if ta.name == "Pkcs1v15" {
			out, err = rsa.DecryptPKCS1v15(rand.Reader, rsaKey(id), e.cvBytes)
		} else {
			out, err = rsa.DecryptOAEP(da.h(), rand.Reader, rsaKey(id), e.cvBytes, nil)
		}
		if err != nil {
			return nil, false
		}
		t.add(encArgs(6, []byte{ta.tag}, []byte(d), []byte{byte(id)}, e.cvBytes), out)
		return out, true
	}
	a := balgByURI(*e.method)
	if a == nil {
		return nil, false
	}
	if e.inner != nil {
		kb, ok := refDecrypt(t, key, e.inner)
		if !ok {
			return nil, false
		}
		key = kb
	}
	kb, ok := key.([]byte)
	if !ok || len(kb) != a.ks || e.cv != cvBytes {
		return nil, false
	}
	ct := e.cvBytes
	if a.gcm {
		if len(ct) < 12 {
			return nil, false
		}
		g, _ := cipher.NewGCM(a.block(kb))
		p, err := g.Open(nil, ct[:12], ct[12:], nil)
		if err != nil {
			return nil, false
		}
		if p == nil {
			p = []byte{}
		}
		t.add(encArgs(4, kb, ct[:12], ct[12:]), p)
		return p, true
	}
	if len(ct) < a.bs || len(ct)%a.bs != 0 {
		return nil, false
	}
	raw := rawCBCDec(a, kb, ct[:a.bs], ct[a.bs:])
	t.add(encArgs(2, []byte{a.tag}, kb, ct[:a.bs], ct[a.bs:]), raw)
	// strip as the W3C says (the model applies its own guards to [raw])
	if len(raw) == 0 {
		return nil, false
	}
	n := int(raw[len(raw)-1])
	if n < 1 || n > len(raw) {
		return nil, false
	}
	return raw[:len(raw)-n], true
}

func keyCoq(key any) string {
	switch k := key.(type) {
	case []byte:
		return "(KBytes " + emit.Bytes(k) + ")"
	case int:
		return fmt.Sprintf("(KRsa %d)", k)
	default:
		return "KOther"
	}
}

func keyGo(key any) any {
	switch k := key.(type) {
	case []byte:
		return k
	case int:
		return rsaKey(k)
	case string:
		switch k {
		case "nil":
			return nil
		case "ecdsa":
			return fix.ECKey("ec_256")
		case "rsa-by-value":
			return *rsaKey(1)
		case "rsa-public":
			return &rsaKey(1).PublicKey
		case "string":
			return "a string"
		case "nil-bytes":
			return []byte(nil) // modelled as KBytes [] by the caller
		}
	}
	return nil
}

func implDecrypt(key any, el *etree.Element) (obs string, out []byte) {
	defer func() {
		if r := recover(); r != nil {
			obs, out = "DPanic", nil
		}
	}()
	// round-trip through text so that the element is what a parser would deliver
	doc := etree.NewDocument()
	doc.SetRoot(el)
	s, _ := doc.WriteToString()
	doc2 := etree.NewDocument()
	if err := doc2.ReadFromString(s); err != nil {
		panic("harness: cannot re-read element: " + err.Error())
	}
	p, err := xmlenc.Decrypt(key, doc2.Root())
	if err != nil {
		return "DErr", nil
	}
	if p == nil {
		p = []byte{}
	}
	return "(DOk " + emit.Bytes(p) + ")", p
}

func randBytes(c *Ctx, n int) []byte {
	b := make([]byte, n)
	c.Rng.Read(b)
	return b
}

func short(b []byte) string {
	if len(b) > 24 {
		return fmt.Sprintf("%x…(%d bytes)", b[:24], len(b))
	}
	return fmt.Sprintf("%x", b)
}

// ---------- C11 : decryption is total ----------
func runC11(c *Ctx) {
	defer c11ThroughSP(c)
	g := c.Group("dec", []string{"Xmlenc"}, "dcase", "check_dcases")
	add := func(class string, key any, e *eel, extra map[string]string) {
		t := &ptable{}
		mk := key
		if s, ok := key.(string); ok && s == "nil-bytes" {
			mk = []byte{}
		}
		refDecrypt(t, mk, e)
		obs, _ := implDecrypt(keyGo(key), e.xml("EncryptedData"))
		alg := ""
		if e.method != nil {
			alg = *e.method
		}
		k := map[string]string{"op": "decrypt", "class": class, "alg": alg}
		for a, b := range extra {
			k[a] = b
		}
		c.Count("dec/" + class)
		c.Count("dec_obs/" + strings.SplitN(strings.Trim(obs, "("), " ", 2)[0])
		in := map[string]any{"element": e.coq(), "key": keyCoq(mk)}
		c.Add(g, &Case{Key: k, Input: in, Obs: obs,
			Term: fmt.Sprintf("{| dc_table := %s; dc_key := %s; dc_el := %s; dc_obs := %s; dc_must_reject := %s |}", t.coq(), keyCoq(mk), e.coq(), obs,
				emit.Bool(class == "gcm_bitflip" || class == "gcm_truncated" || class == "gcm_extended")),
			Trivial: e.method == nil})
	}
	for ai := range balgs {
		a := &balgs[ai]
		key := randBytes(c, a.ks)
		// cipher-value lengths 0 .. 4 blocks + 1, exhaustively; zeros and random
		for n := 0; n <= 4*a.bs+1; n++ {
			add("length", key, &eel{method: strp(a.uri), cv: cvBytes, cvBytes: make([]byte, n), prefix: true}, map[string]string{"len": fmt.Sprint(n)})
			add("length", key, &eel{method: strp(a.uri), cv: cvBytes, cvBytes: randBytes(c, n), prefix: n%2 == 0, cvWS: n%3 == 0}, map[string]string{"len": fmt.Sprint(n)})
		}
		if !a.gcm {
			// crafted paddings: last plaintext byte 0..255, body of 1..3 blocks
			for nb := 1; nb <= 3; nb++ {
				for last := 0; last < 256; last++ {
					if !c.Thorough() && nb > 1 && last > 3*a.bs+2 && last%16 != 0 && last != 255 {
						continue
					}
					plain := randBytes(c, nb*a.bs)
					plain[len(plain)-1] = byte(last)
					iv := randBytes(c, a.bs)
					ct := append(append([]byte{}, iv...), rawCBCEnc(a, key, iv, plain)...)
					add("padding", key, &eel{method: strp(a.uri), cv: cvBytes, cvBytes: ct, prefix: true}, map[string]string{"last": fmt.Sprint(last), "blocks": fmt.Sprint(nb)})
				}
			}
		} else {
			// GCM: a valid message and every single-bit flip of a short one
			gcm, _ := cipher.NewGCM(a.block(key))
			for _, pl := range []int{0, 1, 5} {
				nonce := randBytes(c, 12)
				ct := append(append([]byte{}, nonce...), gcm.Seal(nil, nonce, randBytes(c, pl), nil)...)
				add("gcm_valid", key, &eel{method: strp(a.uri), cv: cvBytes, cvBytes: ct, prefix: true}, nil)
				for bit := 0; bit < len(ct)*8; bit++ {
					if !c.Thorough() && pl > 0 && bit%7 != 0 {
						continue
					}
					m := append([]byte{}, ct...)
					m[bit/8] ^= 1 << (bit % 8)
					add("gcm_bitflip", key, &eel{method: strp(a.uri), cv: cvBytes, cvBytes: m, prefix: true}, nil)
				}
				add("gcm_truncated", key, &eel{method: strp(a.uri), cv: cvBytes, cvBytes: ct[:len(ct)-1], prefix: true}, nil)
				add("gcm_extended", key, &eel{method: strp(a.uri), cv: cvBytes, cvBytes: append(append([]byte{}, ct...), 0), prefix: true}, nil)
			}
		}
		// key types and sizes
		valid := append(append([]byte{}, make([]byte, a.bs)...), make([]byte, 2*a.bs)...)
		for ks := 0; ks <= 33; ks++ {
			add("key_size", make([]byte, ks), &eel{method: strp(a.uri), cv: cvBytes, cvBytes: valid, prefix: true}, map[string]string{"ks": fmt.Sprint(ks)})
		}
		for _, kt := range []string{"nil", "ecdsa", "rsa-by-value", "rsa-public", "string", "nil-bytes"} {
			add("key_type", kt, &eel{method: strp(a.uri), cv: cvBytes, cvBytes: valid, prefix: true}, map[string]string{"kt": kt})
		}
		add("key_type", 1, &eel{method: strp(a.uri), cv: cvBytes, cvBytes: valid, prefix: true}, map[string]string{"kt": "rsa"})
		// element mutations
		add("no_cipherdata", key, &eel{method: strp(a.uri), cv: cvAbsent, prefix: true}, nil)
		add("cipherdata_without_value", key, &eel{method: strp(a.uri), cv: cvNoValue, prefix: true}, nil)
		add("cipherdata_with_reference", key, &eel{method: strp(a.uri), cv: cvReference, prefix: true}, nil)
		add("bad_base64", key, &eel{method: strp(a.uri), cv: cvBad, prefix: true}, nil)
	}
	key16 := randBytes(c, 16)
	okct := make([]byte, 48)
	add("no_method", key16, &eel{cv: cvBytes, cvBytes: okct, prefix: true}, nil)
	add("method_no_attr", key16, &eel{method: strp("\x00absent"), cv: cvBytes, cvBytes: okct, prefix: true}, nil)
	for _, u := range []string{"", "urn:unknown", "http://www.w3.org/2001/04/xmlenc#aes128-cbc ", "http://www.w3.org/2001/04/xmlenc#AES128-CBC",
		"http://www.w3.org/2009/xmlenc11#aes256-gcm", "http://www.w3.org/2001/04/xmlenc#kw-aes128"} {
		add("unknown_alg", key16, &eel{method: strp(u), cv: cvBytes, cvBytes: okct, prefix: true}, nil)
	}

	// RSA-wrapped keys: transports x digests x certificates x key values
	ck := randBytes(c, 16)
	a0 := &balgs[0]
	iv := randBytes(c, 16)
	plain := []byte("<a>hello</a>")
	padded := append(append([]byte{}, plain...), 0, 0, 0, 4)
	dataCT := append(append([]byte{}, iv...), rawCBCEnc(a0, ck, iv, padded)...)
	wrap := func(ta *talg, da *dalg, id int, key []byte) []byte {
		var out []byte
		var err error
		if ta.name == "Pkcs1v15" {
			out, err = rsa.EncryptPKCS1v15(rand.Reader, &rsaKey(id).PublicKey, key)
		} else {
			out, err = rsa.EncryptOAEP(da.h(), rand.Reader, &rsaKey(id).PublicKey, key, nil)
		}
		if err != nil {
			panic(err)
		}
		return out
	}
	for ti := range talgs {
		ta := &talgs[ti]
		for di := range dalgs {
			da := &dalgs[di]
			w := wrap(ta, da, 1, ck)
			for _, cert := range []struct {
				k  certKind
				id int
			}{{certAbsent, 0}, {certRsa, 1}, {certRsa, 2}, {certRsa, 3}, {certNonRsa, 0}, {certBadPem, 0}, {certBadDer, 0}} {
				for _, key := range []any{1, 2, ck, "nil", "ecdsa", "rsa-by-value"} {
					if !c.Thorough() && di > 1 && cert.k != certRsa && cert.k != certAbsent {
						continue
					}
					for shape := 0; shape < 12; shape++ {
						// 0: plain; 1-2: issuer chain after the certificate; 3-5: a certificate-less X509Data first; 6-11: lexical forms of an unusable text
						if shape > 0 && (di > 0 || cert.k == certAbsent) {
							continue
						}
						if shape >= 6 && cert.k != certBadPem && cert.k != certBadDer {
							continue
						}
						ek := &eel{method: strp(ta.uri), dg: strp(da.uri), cert: cert.k, certID: cert.id, cv: cvBytes, cvBytes: w, prefix: true}
						switch {
						case shape <= 2:
							ek.chain = shape
						case shape <= 5:
							ek.lead = shape - 2
						default:
							ek.form = shape - 5
						}
						add("rsa_wrapped", key, &eel{method: strp(a0.uri), cv: cvBytes, cvBytes: dataCT, inner: ek, prefix: true},
							map[string]string{"transport": ta.name, "digest": da.uri, "cert": fmt.Sprint(cert.k, cert.id), "key": keyCoq(key), "keyinfo_shape": fmt.Sprint(shape)})
					}
				}
			}
		}
		// digest absent (defaults to SHA-1), unknown, empty; cipher value absent / bad / short / wrong content
		w1 := wrap(ta, &dalgs[0], 1, ck)
		add("rsa_digest_absent", 1, &eel{method: strp(a0.uri), cv: cvBytes, cvBytes: dataCT, inner: &eel{method: strp(ta.uri), cert: certRsa, certID: 1, cv: cvBytes, cvBytes: w1, prefix: true}, prefix: true}, nil)
		w256 := wrap(ta, &dalgs[1], 1, ck)
		add("rsa_digest_absent_but_sha256", 1, &eel{method: strp(a0.uri), cv: cvBytes, cvBytes: dataCT, inner: &eel{method: strp(ta.uri), cv: cvBytes, cvBytes: w256, prefix: true}, prefix: true}, nil)
		for _, du := range []string{"", "urn:unknown-digest", "http://www.w3.org/2001/04/xmlenc#sha256", "http://www.w3.org/2000/09/xmldsig#SHA1"} {
			add("rsa_digest_unknown", 1, &eel{method: strp(a0.uri), cv: cvBytes, cvBytes: dataCT, inner: &eel{method: strp(ta.uri), dg: strp(du), cv: cvBytes, cvBytes: w1, prefix: true}, prefix: true}, nil)
		}
		add("rsa_no_ciphervalue", 1, &eel{method: strp(a0.uri), cv: cvBytes, cvBytes: dataCT, inner: &eel{method: strp(ta.uri), dg: strp(dalgs[0].uri), cv: cvAbsent, prefix: true}, prefix: true}, nil)
		add("rsa_bad_base64", 1, &eel{method: strp(a0.uri), cv: cvBytes, cvBytes: dataCT, inner: &eel{method: strp(ta.uri), dg: strp(dalgs[0].uri), cv: cvBad, prefix: true}, prefix: true}, nil)
		for _, n := range []int{0, 1, 255, 256, 257} {
			add("rsa_garbage", 1, &eel{method: strp(a0.uri), cv: cvBytes, cvBytes: dataCT, inner: &eel{method: strp(ta.uri), dg: strp(dalgs[0].uri), cv: cvBytes, cvBytes: randBytes(c, n), prefix: true}, prefix: true}, nil)
		}
		// wrapped key of the wrong size for the data cipher
		for _, ks := range []int{0, 15, 17, 24, 32} {
			wk := wrap(ta, &dalgs[0], 1, randBytes(c, ks))
			add("rsa_wrong_keysize", 1, &eel{method: strp(a0.uri), cv: cvBytes, cvBytes: dataCT, inner: &eel{method: strp(ta.uri), dg: strp(dalgs[0].uri), cv: cvBytes, cvBytes: wk, prefix: true}, prefix: true}, nil)
		}
		// an EncryptedKey element decrypted directly
		add("rsa_direct", 1, &eel{method: strp(ta.uri), dg: strp(dalgs[0].uri), cert: certRsa, certID: 1, cv: cvBytes, cvBytes: w1, prefix: true}, nil)
	}
	// nested encrypted keys: key-encryption key wrapped again, 1..4 levels, block ciphers used as key wrap
	for depth := 1; depth <= 4; depth++ {
		for _, variant := range []string{"good", "broken_inner", "truncated_mid"} {
			// innermost: RSA-wrapped kek_0; level i: kek_i encrypted under kek_{i-1} with aes128-cbc
			prev := randBytes(c, 16)
			cur := &eel{method: strp(talgs[0].uri), dg: strp(dalgs[0].uri), cert: certRsa, certID: 1, cv: cvBytes, cvBytes: wrap(&talgs[0], &dalgs[0], 1, prev), prefix: true}
			if variant == "broken_inner" {
				cur.cvBytes = cur.cvBytes[:len(cur.cvBytes)-1]
			}
			for lvl := 1; lvl <= depth; lvl++ {
				next := randBytes(c, 16)
				var pl []byte
				if lvl == depth {
					pl = plain
				} else {
					pl = next
				}
				pad := 16 - len(pl)%16
				p := append(append([]byte{}, pl...), make([]byte, pad)...)
				p[len(p)-1] = byte(pad)
				iv := randBytes(c, 16)
				ct := append(append([]byte{}, iv...), rawCBCEnc(a0, prev, iv, p)...)
				if variant == "truncated_mid" && lvl == (depth+1)/2 {
					ct = ct[:len(ct)-3]
				}
				cur = &eel{method: strp(a0.uri), cv: cvBytes, cvBytes: ct, inner: cur, prefix: lvl%2 == 0}
				prev = next
			}
			add("nested", 1, cur, map[string]string{"depth": fmt.Sprint(depth), "variant": variant})
		}
	}
	// the element renders/reads the same with or without prefixes: default-namespace rendering
	add("default_ns", ck, &eel{method: strp(a0.uri), cv: cvBytes, cvBytes: dataCT, prefix: false}, nil)
}

// ---------- C10 : round trip and interoperation ----------
type recReader struct {
	r     io.Reader
	reads [][]byte
}

func (r *recReader) Read(p []byte) (int, error) {
	n, err := r.r.Read(p)
	r.reads = append(r.reads, append([]byte{}, p[:n]...))
	return n, err
}

func implEncrypt(enc xmlenc.Encrypter, key any, plain, nonce []byte) (el *etree.Element, cls int) {
	defer func() {
		if r := recover(); r != nil {
			el, cls = nil, 2
		}
	}()
	e, err := enc.Encrypt(key, plain, nonce)
	if err != nil {
		return nil, 1
	}
	return e, 0
}

func cipherValueOf(el *etree.Element) []byte {
	v := el.FindElement("./CipherData/CipherValue")
	if v == nil {
		return nil
	}
	b, err := base64.StdEncoding.DecodeString(strings.TrimSpace(v.Text()))
	if err != nil {
		return nil
	}
	return b
}

func w3cPad(c *Ctx, p []byte, bs int, randomFill bool) []byte {
	n := bs - len(p)%bs
	out := append([]byte{}, p...)
	for i := 0; i < n-1; i++ {
		if randomFill {
			out = append(out, byte(c.Rng.Intn(256)))
		} else {
			out = append(out, 0)
		}
	}
	return append(out, byte(n))
}

// EME-OAEP encoding with separate label hash and MGF1 hash (XML Encryption 1.0
// rsa-oaep-mgf1p: MGF1 with SHA-1, label hash = DigestMethod), then raw RSA.
func refOAEPEncrypt(pub *rsa.PublicKey, label, mgf func() hash.Hash, msg []byte, rnd io.Reader) []byte {
	k := pub.Size()
	lh := label()
	lh.Write(nil)
	lHash := lh.Sum(nil)
	hLen := len(lHash)
	em := make([]byte, k)
	seed := em[1 : 1+hLen]
	db := em[1+hLen:]
	copy(db[:hLen], lHash)
	db[len(db)-len(msg)-1] = 1
	copy(db[len(db)-len(msg):], msg)
	io.ReadFull(rnd, seed)
	mgf1XOR(db, mgf(), seed)
	mgf1XOR(seed, mgf(), db)
	m := new(big.Int).SetBytes(em)
	cc := new(big.Int).Exp(m, big.NewInt(int64(pub.E)), pub.N)
	return cc.FillBytes(make([]byte, k))
}

func mgf1XOR(out []byte, h hash.Hash, seed []byte) {
	var counter [4]byte
	done := 0
	for done < len(out) {
		h.Reset()
		h.Write(seed)
		h.Write(counter[:])
		d := h.Sum(nil)
		for i := 0; i < len(d) && done < len(out); i++ {
			out[done] ^= d[i]
			done++
		}
		for i := 3; i >= 0; i-- {
			counter[i]++
			if counter[i] != 0 {
				break
			}
		}
	}
}

func runC10(c *Ctx) {
	ge := c.Group("enc", []string{"Xmlenc"}, "ecase", "check_ecases")
	gi := c.Group("interop", []string{}, "bool", "check_bools")
	cert := fix.Cert("rsa_a")
	_ = x509.Certificate{}

	type tr struct {
		ta *talg
		da *dalg
		mk func() xmlenc.RSA
	}
	var transports []*tr
	transports = append(transports, nil)
	for di := range dalgs {
		da := &dalgs[di]
		transports = append(transports, &tr{&talgs[0], da, func() xmlenc.RSA { e := xmlenc.OAEP(); e.DigestMethod = da.dm; return e }})
	}
	transports = append(transports,
		&tr{&talgs[1], &dalgs[1], xmlenc.OAEP_SHA256},
		&tr{&talgs[1], &dalgs[2], xmlenc.OAEP_SHA512},
		&tr{&talgs[2], nil, xmlenc.PKCS1v15})

	oldRand := xmlenc.RandReader
	defer func() { xmlenc.RandReader = oldRand }()

	for ai := range balgs {
		a := &balgs[ai]
		for _, t := range transports {
			lens := []int{}
			for n := 0; n <= 4*a.bs+1; n++ {
				lens = append(lens, n)
			}
			nrand := 3
			if c.Thorough() {
				nrand = 20
			}
			for i := 0; i < nrand; i++ {
				lens = append(lens, 4*a.bs+2+c.Rng.Intn(3000))
			}
			for _, n := range lens {
				if t != nil && !c.Thorough() && n > a.bs+1 && n%a.bs > 1 && n <= 4*a.bs+1 {
					continue // transports: boundary lengths only in the quick tier
				}
				for _, nonceMode := range []string{"nil", "supplied"} {
					if !a.gcm && nonceMode == "supplied" {
						continue
					}
					plain := randBytes(c, n)
					var nonce []byte
					if nonceMode == "supplied" {
						nonce = randBytes(c, 12)
					}
					rr := &recReader{r: rand.Reader}
					xmlenc.RandReader = rr
					var el *etree.Element
					var cls int
					var key []byte
					tname, dname := "direct", ""
					if t == nil {
						key = randBytes(c, a.ks)
						el, cls = implEncrypt(a.impl, key, plain, nonce)
					} else {
						e := t.mk()
						e.BlockCipher = a.impl
						el, cls = implEncrypt(e, cert, plain, nonce)
						tname = t.ta.name
						if t.da != nil {
							dname = t.da.uri
						}
						if len(rr.reads) > 0 {
							key = rr.reads[0]
						}
					}
					xmlenc.RandReader = oldRand
					var value, iv []byte
					rt := "DErr"
					tab := &ptable{}
					if cls == 0 {
						value = cipherValueOf(el)
						if !a.gcm && len(value) >= a.bs {
							iv = value[:a.bs]
						}
						// what Decrypt returns for the element just produced
						var dk any = key
						if t != nil {
							dk = rsaKey(1)
						}
						rt, _ = implDecrypt(dk, el)
						// freshness / layout checks that need the recorded randomness
						if !a.gcm && len(rr.reads) > 0 {
							last := rr.reads[len(rr.reads)-1]
							if !bytes.Equal(last, iv) {
								c.Count("enc_iv_not_last_rand_read")
							}
						}
					}
					if !a.gcm {
						if iv == nil {
							iv = make([]byte, a.bs)
						}
						if key != nil && len(key) == a.ks {
							padded := w3cPad(c, plain, a.bs, false)
							tab.add(encArgs(1, []byte{a.tag}, key, iv, padded), rawCBCEnc(a, key, iv, padded))
						}
					} else if nonce != nil && key != nil && len(key) == 16 {
						g, _ := cipher.NewGCM(a.block(key))
						z := make([]byte, len(w3cPad(c, plain, 16, false)))
						tab.add(encArgs(3, key, nonce, z), g.Seal(nil, nonce, z, nil))
					}
					trTerm := "None"
					if t != nil {
						d := "None"
						if t.da != nil {
							d = "(Some " + emit.Str(t.da.uri) + ")"
						}
						trTerm = fmt.Sprintf("(Some (%s, %s))", t.ta.name, d)
					}
					nonceTerm := "None"
					if nonce != nil {
						nonceTerm = "(Some " + emit.Bytes(nonce) + ")"
					}
					op := "roundtrip"
					if a.gcm {
						op = "encrypt"
					}
					c.Count(fmt.Sprintf("enc/%s/%s", a.name, tname))
					c.Add(ge, &Case{
						Key:   map[string]string{"alg": a.name, "op": op, "transport": tname, "digest": dname, "nonce": nonceMode},
						Input: map[string]any{"alg": a.uri, "transport": tname, "digest": dname, "plaintext_len": n, "plaintext": short(plain), "nonce": nonceMode},
						Obs:   map[string]any{"encrypt_class": cls, "cipher_value": short(value), "decrypt": strings.SplitN(rt, " ", 2)[0]},
						Term: fmt.Sprintf("{| ec_table := %s; ec_alg := %s; ec_transport := %s; ec_key := %s; ec_iv := %s; ec_nonce := %s; ec_plain := %s; ec_enc_cls := %d; ec_value := %s; ec_rt := %s |}",
							tab.coq(), a.name, trTerm, emit.Bytes(key), emit.Bytes(iv), nonceTerm, emit.Bytes(plain), cls, emit.Bytes(value), rt),
						Dedup: fmt.Sprintf("%s/%s/%s/%d/%s", a.name, tname, dname, n, nonceMode),
					})
				}
			}
		}
	}

	// ---- interoperation with an independent implementation (std library only) ----
	interop := func(name string, key map[string]string, ok bool, in any, obs any) {
		c.Count("interop/" + name)
		key["interop"] = name
		c.Add(gi, &Case{Key: key, Input: in, Obs: obs, Term: emit.Bool(ok), Dedup: fmt.Sprintf("%s/%v", name, in)})
	}
	for ai := range balgs {
		a := &balgs[ai]
		for _, n := range []int{0, 1, a.bs - 1, a.bs, a.bs + 1, 3*a.bs + 5, 1000} {
			key := randBytes(c, a.ks)
			plain := randBytes(c, n)
			// reference -> package
			var ct []byte
			if a.gcm {
				g, _ := cipher.NewGCM(a.block(key))
				nonce := randBytes(c, 12)
				ct = append(append([]byte{}, nonce...), g.Seal(nil, nonce, plain, nil)...)
			} else {
				iv := randBytes(c, a.bs)
				ct = append(append([]byte{}, iv...), rawCBCEnc(a, key, iv, w3cPad(c, plain, a.bs, true))...)
			}
			// a peer writes the element with whatever prefixes it likes: xenc:, another prefix, the default namespace
			for ri, rend := range []string{"xenc-prefix", "other-prefix", "default-namespace"} {
				e := &eel{method: strp(a.uri), cv: cvBytes, cvBytes: ct, prefix: ri < 2, alt: ri == 1}
				obs, out := implDecrypt(key, e.xml("EncryptedData"))
				interop("ref_to_pkg_block", map[string]string{"alg": a.name, "op": "interop_decrypt", "rendering": rend}, strings.HasPrefix(obs, "(DOk") && bytes.Equal(out, plain),
					map[string]any{"alg": a.uri, "len": n, "rendering": rend}, strings.SplitN(obs, " ", 2)[0])
			}
			// package -> reference
			el, cls := implEncrypt(a.impl, key, plain, nil)
			good := false
			if cls == 0 {
				v := cipherValueOf(el)
				if a.gcm {
					if len(v) >= 12 {
						g, _ := cipher.NewGCM(a.block(key))
						p, err := g.Open(nil, v[:12], v[12:], nil)
						good = err == nil && bytes.Equal(p, plain)
					}
				} else if len(v) >= 2*a.bs && len(v)%a.bs == 0 {
					raw := rawCBCDec(a, key, v[:a.bs], v[a.bs:])
					k := int(raw[len(raw)-1])
					good = k >= 1 && k <= a.bs && bytes.Equal(raw[:len(raw)-k], plain)
				}
			}
			op := "interop_encrypt"
			if a.gcm {
				op = "encrypt"
			}
			interop("pkg_to_ref_block", map[string]string{"alg": a.name, "op": op}, good, map[string]any{"alg": a.uri, "len": n}, map[string]any{"encrypt_class": cls})
		}
	}
	// key transport
	a0 := &balgs[0]
	for ti := range talgs {
		ta := &talgs[ti]
		for di := range dalgs {
			da := &dalgs[di]
			if ta.name == "Pkcs1v15" && di > 0 {
				continue
			}
			ck := randBytes(c, 16)
			plain := []byte("<x>interop</x>")
			iv := randBytes(c, 16)
			dataCT := append(append([]byte{}, iv...), rawCBCEnc(a0, ck, iv, w3cPad(c, plain, 16, true))...)
			// reference (conformant: MGF1 with SHA-1, label hash = DigestMethod) -> package
			var w []byte
			if ta.name == "Pkcs1v15" {
				w, _ = rsa.EncryptPKCS1v15(rand.Reader, &rsaKey(1).PublicKey, ck)
			} else {
				w = refOAEPEncrypt(&rsaKey(1).PublicKey, da.h, sha1.New, ck, rand.Reader)
			}
			ek := &eel{method: strp(ta.uri), dg: strp(da.uri), cert: certRsa, certID: 1, cv: cvBytes, cvBytes: w, prefix: true}
			if ta.name == "Pkcs1v15" {
				ek.dg = nil
			}
			ek.alt = (ti+di)%2 == 1
			ek.chain = (ti + di) % 3
			obs, out := implDecrypt(rsaKey(1), (&eel{method: strp(a0.uri), cv: cvBytes, cvBytes: dataCT, inner: ek, prefix: true, alt: ek.alt}).xml("EncryptedData"))
			mgf := "mgf_sha1_is_label_hash"
			if ta.name != "Pkcs1v15" && di != 0 {
				mgf = "mgf_sha1_differs_from_label_hash"
			}
			interop("ref_to_pkg_transport", map[string]string{"transport": ta.name, "digest": da.uri, "mgf": mgf, "op": "interop"},
				strings.HasPrefix(obs, "(DOk") && bytes.Equal(out, plain), map[string]any{"transport": ta.uri, "digest": da.uri}, strings.SplitN(obs, " ", 2)[0])
			// package -> reference
			var enc xmlenc.RSA
			switch ta.name {
			case "OaepMgf1p":
				enc = xmlenc.OAEP()
				enc.DigestMethod = da.dm
			case "Oaep11":
				enc = xmlenc.OAEP_SHA256()
				enc.DigestMethod = da.dm
			default:
				enc = xmlenc.PKCS1v15()
			}
			enc.BlockCipher = xmlenc.AES128CBC
			el, cls := implEncrypt(enc, fix.Cert("rsa_a"), plain, nil)
			good := false
			if cls == 0 {
				ekEl := el.FindElement("./KeyInfo/EncryptedKey")
				if ekEl != nil {
					wv := cipherValueOf(ekEl)
					var k []byte
					var err error
					if ta.name == "Pkcs1v15" {
						k, err = rsa.DecryptPKCS1v15(rand.Reader, rsaKey(1), wv)
					} else {
						k, err = rsaKey(1).Decrypt(rand.Reader, wv, &rsa.OAEPOptions{Hash: da.ch, MGFHash: crypto.SHA1})
					}
					if err == nil && len(k) == 16 {
						v := cipherValueOf(el)
						if len(v) >= 32 && len(v)%16 == 0 {
							raw := rawCBCDec(a0, k, v[:16], v[16:])
							n := int(raw[len(raw)-1])
							good = n >= 1 && n <= 16 && bytes.Equal(raw[:len(raw)-n], plain)
						}
					}
				}
			}
			interop("pkg_to_ref_transport", map[string]string{"transport": ta.name, "digest": da.uri, "mgf": mgf, "op": "interop"}, good,
				map[string]any{"transport": ta.uri, "digest": da.uri}, map[string]any{"encrypt_class": cls})
		}
	}
	// recipient keys whose modulus length is not a whole number of bytes (1025 ... 2047 bits are legal RSA keys):
	// a wrapped key is then ceil(bits/8) bytes long
	for _, bits := range []int{1025, 1030, 2047} {
		k, err := rsa.GenerateKey(rand.Reader, bits)
		if err != nil {
			panic(err)
		}
		tmpl := &x509.Certificate{SerialNumber: big.NewInt(int64(bits)), Subject: pkix.Name{CommonName: fmt.Sprint("odd-", bits)},
			NotBefore: time.Date(1970, 1, 1, 0, 0, 0, 0, time.UTC), NotAfter: time.Date(9999, 12, 31, 0, 0, 0, 0, time.UTC)}
		der, err := x509.CreateCertificate(rand.Reader, tmpl, tmpl, &k.PublicKey, k)
		if err != nil {
			panic(err)
		}
		kcert, _ := x509.ParseCertificate(der)
		for ti := range talgs {
			ta := &talgs[ti]
			da := &dalgs[0]
			ck := randBytes(c, 16)
			plain := []byte("<x>odd key size</x>")
			iv := randBytes(c, 16)
			dataCT := append(append([]byte{}, iv...), rawCBCEnc(a0, ck, iv, w3cPad(c, plain, 16, true))...)
			var w []byte
			if ta.name == "Pkcs1v15" {
				w, _ = rsa.EncryptPKCS1v15(rand.Reader, &k.PublicKey, ck)
			} else {
				w = refOAEPEncrypt(&k.PublicKey, da.h, sha1.New, ck, rand.Reader)
			}
			ek := &eel{method: strp(ta.uri), dg: strp(da.uri), cert: certAbsent, cv: cvBytes, cvBytes: w, prefix: true}
			if ta.name == "Pkcs1v15" {
				ek.dg = nil
			}
			obs, out := implDecrypt(k, (&eel{method: strp(a0.uri), cv: cvBytes, cvBytes: dataCT, inner: ek, prefix: true}).xml("EncryptedData"))
			interop("ref_to_pkg_odd_key_size", map[string]string{"transport": ta.name, "bits": fmt.Sprint(bits), "op": "interop", "mgf": "mgf_sha1_is_label_hash"},
				strings.HasPrefix(obs, "(DOk") && bytes.Equal(out, plain), map[string]any{"transport": ta.uri, "modulus_bits": bits, "wrapped_key_bytes": len(w)}, strings.SplitN(obs, " ", 2)[0])
			// the package's own output for such a recipient, read back by the package
			var enc xmlenc.RSA
			switch ta.name {
			case "OaepMgf1p":
				enc = xmlenc.OAEP()
				enc.DigestMethod = da.dm
			case "Oaep11":
				enc = xmlenc.OAEP_SHA256()
				enc.DigestMethod = da.dm
			default:
				enc = xmlenc.PKCS1v15()
			}
			enc.BlockCipher = xmlenc.AES128CBC
			el, cls := implEncrypt(enc, kcert, plain, nil)
			good := false
			if cls == 0 {
				obs2, out2 := implDecrypt(k, el)
				good = strings.HasPrefix(obs2, "(DOk") && bytes.Equal(out2, plain)
			}
			interop("pkg_roundtrip_odd_key_size", map[string]string{"transport": ta.name, "bits": fmt.Sprint(bits), "op": "interop", "mgf": "mgf_sha1_is_label_hash"}, good,
				map[string]any{"transport": ta.uri, "modulus_bits": bits}, map[string]any{"encrypt_class": cls})
		}
	}
	// DigestMethod absent means SHA-1 (a conformant sender may omit it)
	{
		ck := randBytes(c, 16)
		plain := []byte("<x>nodigest</x>")
		iv := randBytes(c, 16)
		dataCT := append(append([]byte{}, iv...), rawCBCEnc(a0, ck, iv, w3cPad(c, plain, 16, true))...)
		w := refOAEPEncrypt(&rsaKey(1).PublicKey, sha1.New, sha1.New, ck, rand.Reader)
		ek := &eel{method: strp(talgs[0].uri), cert: certRsa, certID: 1, cv: cvBytes, cvBytes: w, prefix: true}
		obs, out := implDecrypt(rsaKey(1), (&eel{method: strp(a0.uri), cv: cvBytes, cvBytes: dataCT, inner: ek, prefix: true}).xml("EncryptedData"))
		interop("ref_to_pkg_digest_absent", map[string]string{"transport": "OaepMgf1p", "op": "interop", "mgf": "mgf_sha1_is_label_hash"},
			strings.HasPrefix(obs, "(DOk") && bytes.Equal(out, plain), map[string]any{"digest": "absent"}, strings.SplitN(obs, " ", 2)[0])
	}
}

var twinCert string

// twinCertB64 is a certificate for a DIFFERENT RSA key that shares the modulus of key 1 (rsa_a) but has
// public exponent 3: abstractly key number 3. A key/certificate consistency check that compares only
// sizes or moduli takes it for key 1's certificate.
func twinCertB64() string {
	if twinCert != "" {
		return twinCert
	}
	pub := &rsa.PublicKey{N: rsaKey(1).N, E: 3}
	parent := fix.Cert("rsa_b")
	tmpl := &x509.Certificate{SerialNumber: big.NewInt(4242), Subject: pkix.Name{CommonName: "twin"},
		NotBefore: time.Date(1970, 1, 1, 0, 0, 0, 0, time.UTC), NotAfter: time.Date(9999, 12, 31, 0, 0, 0, 0, time.UTC)}
	der, err := x509.CreateCertificate(rand.Reader, tmpl, parent, pub, fix.RSAKey("rsa_b"))
	if err != nil {
		panic(err)
	}
	twinCert = base64.StdEncoding.EncodeToString(der)
	return twinCert
}
