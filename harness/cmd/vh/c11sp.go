package main

// C11 through the service provider: anyone can build an EncryptedAssertion to the SP's
// certificate, so every decryption outcome is reachable before any signature is checked.
// ParseXMLResponse must answer with an error, never panic.

import (
	"encoding/base64"
	"fmt"
	"net/url"
	"time"

	"github.com/beevik/etree"
	"github.com/crewjam/saml"
	"github.com/crewjam/saml/xmlenc"

	. "verifharness/internal/core"
	"verifharness/internal/fix"
)

func c11ThroughSP(c *Ctx) {
	g := c.Group("decsp", nil, "bool", "check_bools")
	now := time.Date(2024, 5, 17, 10, 30, 0, 0, time.UTC)
	oldNow := saml.TimeNow
	saml.TimeNow = func() time.Time { return now }
	defer func() { saml.TimeNow = oldNow }()
	acs, _ := url.Parse("https://sp.example.com/saml/acs")
	md, _ := url.Parse("https://sp.example.com/saml/metadata")
	sp := saml.ServiceProvider{Key: fix.RSAKey("rsa_3072"), Certificate: fix.Cert("rsa_3072"), AcsURL: *acs, MetadataURL: *md,
		IDPMetadata: &saml.EntityDescriptor{EntityID: "https://idp.example.com/metadata", IDPSSODescriptors: []saml.IDPSSODescriptor{{
			SSODescriptor: saml.SSODescriptor{RoleDescriptor: saml.RoleDescriptor{KeyDescriptors: []saml.KeyDescriptor{{Use: "signing",
				KeyInfo: saml.KeyInfo{X509Data: saml.X509Data{X509Certificates: []saml.X509Certificate{{Data: fix.CertB64("rsa_a")}}}}}}}}}}}}
	wrap := func(enc *etree.Element) []byte {
		doc := etree.NewDocument()
		r := doc.CreateElement("samlp:Response")
		r.CreateAttr("xmlns:samlp", "urn:oasis:names:tc:SAML:2.0:protocol")
		r.CreateAttr("xmlns:saml", "urn:oasis:names:tc:SAML:2.0:assertion")
		r.CreateAttr("ID", "r1")
		r.CreateAttr("Version", "2.0")
		r.CreateAttr("InResponseTo", "req-1")
		r.CreateAttr("IssueInstant", now.Format("2006-01-02T15:04:05Z"))
		r.CreateElement("saml:Issuer").SetText("https://idp.example.com/metadata")
		r.CreateElement("samlp:Status").CreateElement("samlp:StatusCode").CreateAttr("Value", saml.StatusSuccess)
		ea := r.CreateElement("saml:EncryptedAssertion")
		ea.AddChild(enc)
		b, _ := doc.WriteToBytes()
		return b
	}
	run := func(class, detail string, doc []byte) {
		panicked := ""
		var err error
		var a *saml.Assertion
		func() {
			defer func() {
				if p := recover(); p != nil {
					panicked = fmt.Sprint(p)
				}
			}()
			a, err = sp.ParseXMLResponse(doc, []string{"req-1"}, *acs)
		}()
		ok := panicked == "" && a == nil && err != nil
		c.Count("decsp/" + class)
		c.Add(g, &Case{Key: map[string]string{"op": "decrypt-through-sp", "class": class, "detail": detail},
			Input: map[string]any{"document_b64": base64.StdEncoding.EncodeToString(doc)},
			Obs:   map[string]any{"panic": panicked, "err": fmt.Sprint(err), "assertion_nil": a == nil}, Term: fmt.Sprint(ok), ImplSpecOK: Bptr(ok),
			Dedup: class + "/" + detail})
	}
	ciphers := []struct {
		name string
		bc   xmlenc.BlockCipher
	}{{"aes128-cbc", xmlenc.AES128CBC}, {"aes192-cbc", xmlenc.AES192CBC}, {"aes256-cbc", xmlenc.AES256CBC}, {"tripledes-cbc", xmlenc.TripleDES}, {"aes128-gcm", xmlenc.AES128GCM}}
	plaintexts := []struct{ name, text string }{{"empty", ""}, {"comment-only", "<!-- nothing -->"}, {"pi-only", "<?xml version=\"1.0\"?>"}, {"text", "hello"},
		{"truncated", "<saml:Assertion"}, {"other-root", "<x/>"}, {"unsigned-assertion", `<saml:Assertion xmlns:saml="urn:oasis:names:tc:SAML:2.0:assertion" ID="a1" Version="2.0"/>`},
		{"empty-cdata", `<saml:Assertion xmlns:saml="urn:oasis:names:tc:SAML:2.0:assertion" ID="a1"><![CDATA[]]></saml:Assertion>`}}
	for _, ci := range ciphers {
		if ci.name == "aes128-gcm" {
			continue // GCM Encrypt is the known finding K1; GCM ciphertexts are covered by the element-level cases
		}
		for _, p := range plaintexts {
			e := xmlenc.OAEP()
			e.BlockCipher = ci.bc
			e.DigestMethod = &xmlenc.SHA1
			var el *etree.Element
			var err error
			func() {
				defer func() { recover() }()
				el, err = e.Encrypt(sp.Certificate, []byte(p.text), nil)
			}()
			if err != nil || el == nil {
				continue
			}
			run("plaintext", ci.name+"/"+p.name, wrap(el))
			// the same element with the data cipher value cut to every boundary length
			if p.name == "unsigned-assertion" {
				for _, nb := range []int{0, 1, 7, 8, 9, 15, 16, 17, 23, 24, 31, 32, 33, 47, 48, 49} {
					cp := el.Copy()
					cv := cp.FindElement("./CipherData/CipherValue")
					cv.SetText(base64.StdEncoding.EncodeToString(make([]byte, nb)))
					run("cipher-value-length", fmt.Sprintf("%s/%d", ci.name, nb), wrap(cp))
				}
				// wrapped key cut short / emptied
				for _, nb := range []int{0, 1, 16, 255} {
					cp := el.Copy()
					if kv := cp.FindElement("./KeyInfo/EncryptedKey/CipherData/CipherValue"); kv != nil {
						kv.SetText(base64.StdEncoding.EncodeToString(make([]byte, nb)))
						run("wrapped-key-length", fmt.Sprintf("%s/%d", ci.name, nb), wrap(cp))
					}
				}
			}
		}
	}
}
