// vh — correspondence harness for the pure codecs (C10, C11, C15).
package main

import . "verifharness/internal/core"

func main() { Main() }

func bptr(b bool) *bool { return Bptr(b) }

var props = Props
