// Package emit writes Gallina terms for the correspondence check.
package emit

import (
	"encoding/hex"
	"fmt"
	"strings"
)

// Z renders an integer as a Coq Z literal.
func Z(n int64) string {
	if n < 0 {
		return fmt.Sprintf("(%d)", n)
	}
	return fmt.Sprintf("%d", n)
}

// ZBig renders a decimal string as a Z literal.
func ZBig(s string) string {
	if strings.HasPrefix(s, "-") {
		return "(" + s + ")"
	}
	return s
}

// Bool renders a Coq bool.
func Bool(b bool) string {
	if b {
		return "true"
	}
	return "false"
}

// Str renders a Go string (arbitrary bytes) as a Coq string term. Printable
// ASCII without quotes is written as a literal; anything else goes through the
// hex decoder so that no lexer can alter the bytes.
func Str(s string) string {
	plain := true
	for i := 0; i < len(s); i++ {
		c := s[i]
		if c < 0x20 || c > 0x7e || c == '"' {
			plain = false
			break
		}
	}
	if plain {
		return `"` + s + `"`
	}
	return `(hx "` + hex.EncodeToString([]byte(s)) + `")`
}

// OptStr renders option string.
func OptStr(s *string) string {
	if s == nil {
		return "None"
	}
	return "(Some " + Str(*s) + ")"
}

// OptZ renders option Z.
func OptZ(z *int64) string {
	if z == nil {
		return "None"
	}
	return "(Some " + Z(*z) + ")"
}

// List renders a Coq list.
func List(items []string) string {
	return "[" + strings.Join(items, "; ") + "]"
}

// StrList renders a list of strings.
func StrList(ss []string) string {
	items := make([]string, len(ss))
	for i, s := range ss {
		items[i] = Str(s)
	}
	return List(items)
}

// Bytes renders a byte slice as a list of Z.
func Bytes(b []byte) string {
	items := make([]string, len(b))
	for i, c := range b {
		items[i] = fmt.Sprintf("%d", c)
	}
	return List(items)
}
