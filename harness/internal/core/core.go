// Package core is the shared part of the correspondence harness binaries
// (cmd/vh*): each runs the real crewjam/saml implementation on generated
// inputs and writes (input, observed output) cases as Gallina terms.
package core

import (
	"encoding/json"
	"flag"
	"fmt"
	"math/rand"
	"os"
	"path/filepath"
	"regexp"
	"sort"
	"strings"
)

// Case is one correspondence case.
type Case struct {
	Idx   int               `json:"idx"`
	Group string            `json:"group"`         // which case list / checker this belongs to
	Key   map[string]string `json:"key,omitempty"` // structured description (known-finding matching, histogram)
	Input any               `json:"input"`         // human-readable input for replays
	Obs   any               `json:"obs"`           // what the implementation did
	Term  string            `json:"-"`             // Gallina term for the model side
	// ImplSpecOK is the harness's own evaluation of the property's conclusion on
	// the implementation's output where that needs the implementation again
	// (e.g. a second decode); nil = not evaluated on the Go side.
	ImplSpecOK *bool  `json:"impl_spec_ok,omitempty"`
	Note       string `json:"note,omitempty"`
	Trivial    bool   `json:"trivial,omitempty"` // counted as trivial in the evidence
	Dedup      string `json:"-"`                 // distinctness key (defaults to Term)
}

// Group is a list of cases sharing one Coq checker.
type Group struct {
	Name    string
	Imports []string // modules under Saml to import
	Type    string   // Coq type of a case
	Checker string   // Coq function : list <Type> -> list (Z*Z)  (idx-in-group, code) ; code bit0=disagree bit1=spec-fail
	Cases   []*Case
	Shard   int // cases per generated file (0 = default); smaller shards for large case terms
}

type Ctx struct {
	Prop   string
	Tier   string
	Seed   int64
	Rng    *rand.Rand
	Out    string
	Groups map[string]*Group
	Order  []string
	Hist   map[string]int
	N      int
	Extra  map[string]any
	// interned subterms (see Intern)
	internByTerm map[string]string
	internDefs   []internDef
}

type internDef struct{ name, typ, term string }

var internName = regexp.MustCompile(`\bn_[0-9]+\b`)

// Intern gives a (large, repeated) Gallina subterm a name; every shard that
// mentions the name gets the definition in its prelude, so Coq elaborates the
// subterm once instead of once per occurrence. Returns the name to write in
// place of the term.
func (c *Ctx) Intern(typ, term string) string {
	if c.internByTerm == nil {
		c.internByTerm = map[string]string{}
	}
	if n, ok := c.internByTerm[term]; ok {
		return n
	}
	n := fmt.Sprintf("n_%d", len(c.internDefs))
	c.internByTerm[term] = n
	c.internDefs = append(c.internDefs, internDef{n, typ, term})
	return n
}

// internPrelude returns the definitions (in creation order, which is dependency
// order) needed by the given terms.
func (c *Ctx) internPrelude(terms []string) []string {
	need := map[string]bool{}
	var visit func(t string)
	idx := map[string]int{}
	for i, d := range c.internDefs {
		idx[d.name] = i
	}
	visit = func(t string) {
		for _, m := range internName.FindAllString(t, -1) {
			if i, ok := idx[m]; ok && !need[m] {
				need[m] = true
				visit(c.internDefs[i].term)
			}
		}
	}
	for _, t := range terms {
		visit(t)
	}
	var out []string
	for _, d := range c.internDefs {
		if need[d.name] {
			out = append(out, "Definition "+d.name+" : "+d.typ+" := "+d.term+".")
		}
	}
	return out
}

func (c *Ctx) Thorough() bool { return c.Tier == "thorough" }

func (c *Ctx) Group(name string, imports []string, typ, checker string) *Group {
	if g, ok := c.Groups[name]; ok {
		return g
	}
	g := &Group{Name: name, Imports: imports, Type: typ, Checker: checker}
	c.Groups[name] = g
	c.Order = append(c.Order, name)
	return g
}

func (c *Ctx) Add(g *Group, cs *Case) {
	cs.Idx = c.N
	cs.Group = g.Name
	c.N++
	g.Cases = append(g.Cases, cs)
}

func (c *Ctx) Count(k string) { c.Hist[k]++ }

// Bptr returns a pointer to b.
func Bptr(b bool) *bool { return &b }

// Props maps a property id to its case generator; each cmd/vh* binary fills it in init().
var Props = map[string]func(*Ctx){}

const shardSize = 400

// Main is the entry point shared by the harness binaries.
func Main() {
	if len(os.Args) < 2 {
		fmt.Fprintln(os.Stderr, "usage: vh <property> [-tier quick|thorough] [-seed N] [-out dir]")
		os.Exit(2)
	}
	prop := os.Args[1]
	fs := flag.NewFlagSet("vh", flag.ExitOnError)
	tier := fs.String("tier", "quick", "quick|thorough")
	seed := fs.Int64("seed", 1, "seed")
	out := fs.String("out", ".", "output dir")
	_ = fs.Parse(os.Args[2:])
	f, ok := Props[prop]
	if !ok {
		fmt.Fprintln(os.Stderr, "unknown property", prop)
		os.Exit(2)
	}
	ctx := &Ctx{Prop: prop, Tier: *tier, Seed: *seed, Rng: rand.New(rand.NewSource(*seed)), Out: *out,
		Groups: map[string]*Group{}, Hist: map[string]int{}, Extra: map[string]any{}}
	f(ctx)
	ctx.filterReplay()
	if err := ctx.write(); err != nil {
		fmt.Fprintln(os.Stderr, "write:", err)
		os.Exit(2)
	}
}

var strLit = regexp.MustCompile(`"[^"]*"`)

// internStrings names every string literal that occurs more than once in a
// shard (Coq elaborates a literal into one constructor per bit, which dominates
// the time to check large case terms); the bytes of every literal are unchanged.
func internStrings(terms []string) (string, []string) {
	count := map[string]int{}
	for _, t := range terms {
		for _, m := range strLit.FindAllString(t, -1) {
			count[m]++
		}
	}
	names := map[string]string{}
	var defs strings.Builder
	out := make([]string, len(terms))
	for i, t := range terms {
		out[i] = strLit.ReplaceAllStringFunc(t, func(m string) string {
			if count[m] < 2 || len(m) < 4 {
				return m
			}
			n, ok := names[m]
			if !ok {
				n = fmt.Sprintf("s_%d", len(names))
				names[m] = n
				defs.WriteString("Definition " + n + " : string := " + m + ".\n")
			}
			return n
		})
	}
	return defs.String(), out
}

// filterReplay: with VERIF_REPLAY=<replay file> only the cases whose structured key equals the
// replayed case's key are kept (the generators are deterministic in the seed, so the failing case
// is regenerated); if no case has that key the run is left as it is.
func (c *Ctx) filterReplay() {
	path := os.Getenv("VERIF_REPLAY")
	if path == "" {
		return
	}
	b, err := os.ReadFile(path)
	if err != nil {
		return
	}
	var rp struct {
		Case struct {
			Key map[string]string `json:"key"`
		} `json:"case"`
	}
	if json.Unmarshal(b, &rp) != nil || len(rp.Case.Key) == 0 {
		return
	}
	same := func(k map[string]string) bool {
		if len(k) != len(rp.Case.Key) {
			return false
		}
		for a, v := range rp.Case.Key {
			if k[a] != v {
				return false
			}
		}
		return true
	}
	found := false
	for _, g := range c.Groups {
		for _, cs := range g.Cases {
			if same(cs.Key) {
				found = true
			}
		}
	}
	if !found {
		return
	}
	for _, g := range c.Groups {
		var keep []*Case
		for _, cs := range g.Cases {
			if same(cs.Key) {
				keep = append(keep, cs)
			}
		}
		g.Cases = keep
	}
	c.Extra["replay_of"] = path
}

func (c *Ctx) write() error {
	if err := os.MkdirAll(c.Out, 0o755); err != nil {
		return err
	}
	// remove stale shards of this property
	old, _ := filepath.Glob(filepath.Join(c.Out, "Cases_"+c.Prop+"_*"))
	for _, f := range old {
		os.Remove(f)
	}
	var shards []map[string]any
	jl, err := os.Create(filepath.Join(c.Out, "cases_"+c.Prop+".jsonl"))
	if err != nil {
		return err
	}
	defer jl.Close()
	enc := json.NewEncoder(jl)
	distinct := map[string]bool{}
	nontrivial := 0
	for _, name := range c.Order {
		g := c.Groups[name]
		shardSize := shardSize
		if g.Shard > 0 {
			shardSize = g.Shard
		}
		for i := 0; i < len(g.Cases); i += shardSize {
			j := i + shardSize
			if j > len(g.Cases) {
				j = len(g.Cases)
			}
			mod := fmt.Sprintf("Cases_%s_%s_%d", c.Prop, g.Name, i/shardSize)
			var sb strings.Builder
			sb.WriteString("(* generated by vh; do not edit *)\n")
			sb.WriteString("From Saml Require Import Base " + strings.Join(g.Imports, " ") + ".\n")
			idxs := []int{}
			terms := make([]string, 0, j-i)
			for _, cs := range g.Cases[i:j] {
				terms = append(terms, cs.Term)
				idxs = append(idxs, cs.Idx)
			}
			prelude := c.internPrelude(terms)
			all := append(append([]string{}, prelude...), terms...)
			defs, all := internStrings(all)
			sb.WriteString(defs)
			for _, d := range all[:len(prelude)] {
				sb.WriteString(d + "\n")
			}
			terms = all[len(prelude):]
			sb.WriteString("Definition cases : list (" + g.Type + ") := [\n")
			for k, t := range terms {
				if k > 0 {
					sb.WriteString(";\n")
				}
				sb.WriteString("  " + t)
			}
			sb.WriteString("\n].\n")
			sb.WriteString("Definition R := Eval vm_compute in (" + g.Checker + " cases).\nPrint R.\n")
			if err := os.WriteFile(filepath.Join(c.Out, mod+".v"), []byte(sb.String()), 0o644); err != nil {
				return err
			}
			shards = append(shards, map[string]any{"module": mod, "group": g.Name, "idxs": idxs})
		}
		for _, cs := range g.Cases {
			if err := enc.Encode(cs); err != nil {
				return err
			}
			d := cs.Dedup
			if d == "" {
				d = cs.Term
			}
			d = g.Name + "|" + d
			if !distinct[d] {
				distinct[d] = true
				if !cs.Trivial {
					nontrivial++
				}
			}
		}
	}
	keys := make([]string, 0, len(c.Hist))
	for k := range c.Hist {
		keys = append(keys, k)
	}
	sort.Strings(keys)
	meta := map[string]any{
		"property": c.Prop, "tier": c.Tier, "seed": c.Seed, "evaluations": c.N,
		"distinct_nontrivial": nontrivial, "distinct": len(distinct),
		"histogram": c.Hist, "shards": shards, "extra": c.Extra,
	}
	b, _ := json.MarshalIndent(meta, "", " ")
	return os.WriteFile(filepath.Join(c.Out, "meta_"+c.Prop+".json"), b, 0o644)
}
