// Package mdcases generates the correspondence cases of the metadata clause of C15:
// EntityDescriptor values with every optional part present or absent go through
// xml.Marshal -> xml.Unmarshal twice and are compared with Metadata.norm; the documents
// produced by ServiceProvider.Metadata and IdentityProvider.Metadata are re-parsed and compared.
package mdcases

import (
	"bytes"
	"crypto/x509"
	"encoding/xml"
	"fmt"
	"math/big"
	"net/url"
	"reflect"
	"strings"
	"time"

	"github.com/crewjam/saml"
	dsig "github.com/russellhaering/goxmldsig"

	"verifharness/internal/core"
	"verifharness/internal/emit"
	"verifharness/internal/fix"
)

func instantZ(t time.Time) string {
	b := new(big.Int).Mul(big.NewInt(t.Unix()), big.NewInt(1e9))
	b.Add(b, big.NewInt(int64(t.Nanosecond())))
	return emit.ZBig(b.String())
}

func plainTerm(e saml.Endpoint) string {
	return fmt.Sprintf("(EPlain {| ep_binding := %s; ep_location := %s; ep_response := %s |})", emit.Str(e.Binding), emit.Str(e.Location), emit.Str(e.ResponseLocation))
}

func indexedTerm(e saml.IndexedEndpoint) string {
	d := "None"
	if e.IsDefault != nil {
		d = "(Some " + emit.Bool(*e.IsDefault) + ")"
	}
	return fmt.Sprintf("(EIndexed {| ie_binding := %s; ie_location := %s; ie_response := %s; ie_index := %s; ie_default := %s |})",
		emit.Str(e.Binding), emit.Str(e.Location), emit.OptStr(e.ResponseLocation), emit.Z(int64(e.Index)), d)
}

type proj struct {
	roleVU, roleCD, keys, eps []string
}

func (p *proj) role(label string, rd *saml.RoleDescriptor) {
	vu := "None"
	if rd.ValidUntil != nil {
		vu = "(Some " + instantZ(*rd.ValidUntil) + ")"
	}
	p.roleVU = append(p.roleVU, "("+emit.Str(label)+", "+vu+")")
	p.roleCD = append(p.roleCD, "("+emit.Str(label)+", "+emit.Z(int64(rd.CacheDuration))+")")
	for i, kd := range rd.KeyDescriptors {
		var certs, methods []string
		for _, c := range kd.KeyInfo.X509Data.X509Certificates {
			certs = append(certs, c.Data)
		}
		for _, m := range kd.EncryptionMethods {
			methods = append(methods, m.Algorithm)
		}
		p.keys = append(p.keys, fmt.Sprintf("(%s, {| kd_use := %s; kd_certs := %s; kd_methods := %s |})",
			emit.Str(fmt.Sprintf("%s/KeyDescriptor[%d]", label, i)), emit.Str(kd.Use), emit.StrList(certs), emit.StrList(methods)))
	}
}

func (p *proj) plain(label string, es []saml.Endpoint) {
	for i, e := range es {
		p.eps = append(p.eps, "("+emit.Str(fmt.Sprintf("%s[%d]", label, i))+", "+plainTerm(e)+")")
	}
}

func (p *proj) indexed(label string, es []saml.IndexedEndpoint) {
	for i, e := range es {
		p.eps = append(p.eps, "("+emit.Str(fmt.Sprintf("%s[%d]", label, i))+", "+indexedTerm(e)+")")
	}
}

// Project renders the abstract view of a descriptor as a Gallina entity_descriptor.
func Project(ed *saml.EntityDescriptor) string {
	p := &proj{}
	for i := range ed.RoleDescriptors {
		p.role(fmt.Sprintf("Role[%d]", i), &ed.RoleDescriptors[i])
	}
	for i := range ed.IDPSSODescriptors {
		d := &ed.IDPSSODescriptors[i]
		l := fmt.Sprintf("IDPSSO[%d]", i)
		p.role(l, &d.RoleDescriptor)
		p.plain(l+"/ArtifactResolutionService", d.ArtifactResolutionServices)
		p.plain(l+"/SingleLogoutService", d.SingleLogoutServices)
		p.plain(l+"/ManageNameIDService", d.ManageNameIDServices)
		p.plain(l+"/SingleSignOnService", d.SingleSignOnServices)
		p.plain(l+"/NameIDMappingService", d.NameIDMappingServices)
		p.plain(l+"/AssertionIDRequestService", d.AssertionIDRequestServices)
	}
	for i := range ed.SPSSODescriptors {
		d := &ed.SPSSODescriptors[i]
		l := fmt.Sprintf("SPSSO[%d]", i)
		p.role(l, &d.RoleDescriptor)
		p.indexed(l+"/ArtifactResolutionService", d.ArtifactResolutionServices)
		p.plain(l+"/SingleLogoutService", d.SingleLogoutServices)
		p.plain(l+"/ManageNameIDService", d.ManageNameIDServices)
		p.indexed(l+"/AssertionConsumerService", d.AssertionConsumerServices)
	}
	for i := range ed.AuthnAuthorityDescriptors {
		d := &ed.AuthnAuthorityDescriptors[i]
		l := fmt.Sprintf("AuthnAuthority[%d]", i)
		p.role(l, &d.RoleDescriptor)
		p.plain(l+"/AuthnQueryService", d.AuthnQueryServices)
		p.plain(l+"/AssertionIDRequestService", d.AssertionIDRequestServices)
	}
	for i := range ed.AttributeAuthorityDescriptors {
		d := &ed.AttributeAuthorityDescriptors[i]
		l := fmt.Sprintf("AttributeAuthority[%d]", i)
		p.role(l, &d.RoleDescriptor)
		p.plain(l+"/AttributeService", d.AttributeServices)
		p.plain(l+"/AssertionIDRequestService", d.AssertionIDRequestServices)
	}
	for i := range ed.PDPDescriptors {
		d := &ed.PDPDescriptors[i]
		l := fmt.Sprintf("PDP[%d]", i)
		p.role(l, &d.RoleDescriptor)
		p.plain(l+"/AuthzService", d.AuthzServices)
		p.plain(l+"/AssertionIDRequestService", d.AssertionIDRequestServices)
	}
	return fmt.Sprintf("{| ed_entity_id := %s; ed_valid_until := %s; ed_cache_duration := %s; ed_role_valid_until := %s; ed_role_cache := %s; ed_keys := %s; ed_endpoints := %s |}",
		emit.Str(ed.EntityID), instantZ(ed.ValidUntil), emit.Z(int64(ed.CacheDuration)), emit.List(p.roleVU), emit.List(p.roleCD), emit.List(p.keys), emit.List(p.eps))
}

// graft copies the fields the generation is allowed to change (validity instant, endpoints) from src into dst.
func graft(dst, src *saml.EntityDescriptor) bool {
	dst.ValidUntil = src.ValidUntil
	if len(dst.IDPSSODescriptors) != len(src.IDPSSODescriptors) || len(dst.SPSSODescriptors) != len(src.SPSSODescriptors) ||
		len(dst.AuthnAuthorityDescriptors) != len(src.AuthnAuthorityDescriptors) || len(dst.AttributeAuthorityDescriptors) != len(src.AttributeAuthorityDescriptors) ||
		len(dst.PDPDescriptors) != len(src.PDPDescriptors) {
		return false
	}
	for i := range dst.IDPSSODescriptors {
		d, s := &dst.IDPSSODescriptors[i], &src.IDPSSODescriptors[i]
		d.ArtifactResolutionServices, d.SingleLogoutServices, d.ManageNameIDServices = s.ArtifactResolutionServices, s.SingleLogoutServices, s.ManageNameIDServices
		d.SingleSignOnServices, d.NameIDMappingServices, d.AssertionIDRequestServices = s.SingleSignOnServices, s.NameIDMappingServices, s.AssertionIDRequestServices
	}
	for i := range dst.SPSSODescriptors {
		d, s := &dst.SPSSODescriptors[i], &src.SPSSODescriptors[i]
		d.ArtifactResolutionServices, d.SingleLogoutServices, d.ManageNameIDServices, d.AssertionConsumerServices = s.ArtifactResolutionServices, s.SingleLogoutServices, s.ManageNameIDServices, s.AssertionConsumerServices
	}
	for i := range dst.AuthnAuthorityDescriptors {
		d, s := &dst.AuthnAuthorityDescriptors[i], &src.AuthnAuthorityDescriptors[i]
		d.AuthnQueryServices, d.AssertionIDRequestServices = s.AuthnQueryServices, s.AssertionIDRequestServices
	}
	for i := range dst.AttributeAuthorityDescriptors {
		d, s := &dst.AttributeAuthorityDescriptors[i], &src.AttributeAuthorityDescriptors[i]
		d.AttributeServices, d.AssertionIDRequestServices = s.AttributeServices, s.AssertionIDRequestServices
	}
	for i := range dst.PDPDescriptors {
		d, s := &dst.PDPDescriptors[i], &src.PDPDescriptors[i]
		d.AuthzServices, d.AssertionIDRequestServices = s.AuthzServices, s.AssertionIDRequestServices
	}
	return true
}

func generation(m *saml.EntityDescriptor) (out *saml.EntityDescriptor, xmlText []byte, problem string) {
	defer func() {
		if r := recover(); r != nil {
			out, problem = nil, fmt.Sprint("panic: ", r)
		}
	}()
	b, err := xml.Marshal(m)
	if err != nil {
		return nil, nil, "marshal: " + err.Error()
	}
	var m1 saml.EntityDescriptor
	if err := xml.Unmarshal(b, &m1); err != nil {
		return nil, b, ""
	}
	return &m1, b, ""
}

type gen struct{ c *core.Ctx }

func (g gen) pick(ss ...string) string { return ss[g.c.Rng.Intn(len(ss))] }
func (g gen) coin(n int) bool          { return g.c.Rng.Intn(n) == 0 }

var okLocs = []string{"https://idp.example.com/sso", "http://idp.example.com/a?b=c&d=e", "HTTPS://IDP.example.com/%41", "https://idp.example.com:8443/slo#frag", "http://[::1]:8080/x", "https://u:p@idp.example.com/"}
var badLocs = []string{"javascript:alert(1)", "data:text/html,x", "/relative", "idp.example.com/sso", "", " https://idp.example.com/", "https://idp.example.com/%zz", "ftp://idp.example.com/"}
var stdBindings = []string{saml.HTTPPostBinding, saml.HTTPRedirectBinding, saml.HTTPArtifactBinding, saml.SOAPBinding, saml.SOAPBindingV1}
var otherBindings = []string{"urn:mace:shibboleth:1.0:profiles:AuthnRequest", "urn:oasis:names:tc:SAML:2.0:bindings:PAOS", "", "urn:oasis:names:tc:SAML:2.0:bindings:HTTP-POST "}

// endpoint generation: mostly acceptable ones (so that the document survives), ResponseLocation different from Location
func (g gen) endpoint(allowBad bool) saml.Endpoint {
	e := saml.Endpoint{}
	if g.coin(4) {
		e.Binding = g.pick(otherBindings...)
		e.Location = g.pick(append(append([]string{}, okLocs...), badLocs...)...)
		if g.coin(2) {
			e.ResponseLocation = g.pick(append(append([]string{}, okLocs...), badLocs[:4]...)...)
		}
		return e
	}
	e.Binding = g.pick(stdBindings...)
	i := g.c.Rng.Intn(len(okLocs))
	e.Location = okLocs[i]
	if g.coin(2) {
		e.ResponseLocation = okLocs[(i+1+g.c.Rng.Intn(len(okLocs)-1))%len(okLocs)]
	}
	if allowBad && g.coin(12) {
		if g.coin(2) {
			e.Location = g.pick(badLocs...)
		} else {
			e.ResponseLocation = g.pick(badLocs[:4]...)
		}
	}
	return e
}

func (g gen) indexed(allowBad bool, idx int) saml.IndexedEndpoint {
	p := g.endpoint(allowBad)
	e := saml.IndexedEndpoint{Binding: p.Binding, Location: p.Location, Index: idx}
	if p.ResponseLocation != "" || g.coin(10) {
		r := p.ResponseLocation
		e.ResponseLocation = &r
	}
	switch g.c.Rng.Intn(3) {
	case 0:
		t := true
		e.IsDefault = &t
	case 1:
		f := false
		e.IsDefault = &f
	}
	return e
}

func (g gen) endpoints(allowBad bool) []saml.Endpoint {
	n := g.c.Rng.Intn(3)
	if n == 0 {
		return nil
	}
	out := make([]saml.Endpoint, n)
	for i := range out {
		out[i] = g.endpoint(allowBad)
	}
	return out
}

func (g gen) indexeds(allowBad bool) []saml.IndexedEndpoint {
	n := g.c.Rng.Intn(3)
	if n == 0 {
		return nil
	}
	out := make([]saml.IndexedEndpoint, n)
	for i := range out {
		out[i] = g.indexed(allowBad, i+g.c.Rng.Intn(3))
	}
	return out
}

var instants = []time.Time{
	{}, time.Date(2024, 5, 6, 7, 8, 9, 0, time.UTC), time.Date(2024, 5, 6, 7, 8, 9, 123456789, time.UTC), time.Date(2024, 5, 6, 7, 8, 9, 499999, time.UTC),
	time.Date(2024, 5, 6, 7, 8, 9, 500000, time.UTC), time.Date(2024, 12, 31, 23, 59, 59, 999500000, time.UTC), time.Date(2024, 12, 31, 23, 59, 59, 999499999, time.UTC),
	time.Date(1969, 12, 31, 23, 59, 59, 999999999, time.UTC), time.Date(9999, 12, 31, 23, 59, 59, 999000000, time.UTC), time.Date(1, 1, 1, 0, 0, 0, 1, time.UTC),
	time.Date(2038, 1, 19, 3, 14, 7, 120000000, time.FixedZone("x", 5*3600+1800)), time.Date(2000, 2, 29, 12, 0, 0, 1000000, time.FixedZone("y", -8*3600)),
}

func (g gen) instant() time.Time {
	if g.coin(3) {
		return time.Unix(g.c.Rng.Int63n(253402300799+62135596800)-62135596800, g.c.Rng.Int63n(1e9)).UTC()
	}
	return instants[g.c.Rng.Intn(len(instants))]
}

var durations = []time.Duration{0, 1, -1, time.Millisecond, 263669287, time.Second, 90 * time.Minute, 48 * time.Hour, 3600*time.Second + 1, -36 * time.Hour, 1<<63 - 1, -1 << 63}

func (g gen) duration() time.Duration {
	if g.coin(3) {
		return time.Duration(g.c.Rng.Int63n(int64(1000 * time.Hour)))
	}
	return durations[g.c.Rng.Intn(len(durations))]
}

var texts = []string{"https://e.example.com/metadata", "urn:entity:a&b<c>\"d'", "é—世界", "x", " leading and trailing ", "tab\tand\nnewline", "a]]>b"}

func (g gen) keys() []saml.KeyDescriptor {
	n := g.c.Rng.Intn(3)
	if n == 0 {
		return nil
	}
	out := make([]saml.KeyDescriptor, n)
	for i := range out {
		kd := saml.KeyDescriptor{Use: g.pick("", "signing", "encryption", "other")}
		for k := 0; k < g.c.Rng.Intn(3); k++ {
			kd.KeyInfo.X509Data.X509Certificates = append(kd.KeyInfo.X509Data.X509Certificates, saml.X509Certificate{Data: g.pick("MIIB+zCCAWQ=", fix.CertB64("ec_256"), "AAAA\nBBBB  CCCC", "")})
		}
		for k := 0; k < g.c.Rng.Intn(3); k++ {
			kd.EncryptionMethods = append(kd.EncryptionMethods, saml.EncryptionMethod{Algorithm: g.pick("http://www.w3.org/2001/04/xmlenc#aes128-cbc", "http://www.w3.org/2009/xmlenc11#aes256-gcm", "")})
		}
		out[i] = kd
	}
	return out
}

func (g gen) roleDescriptor() saml.RoleDescriptor {
	rd := saml.RoleDescriptor{ProtocolSupportEnumeration: g.pick("urn:oasis:names:tc:SAML:2.0:protocol", "", "a b"), KeyDescriptors: g.keys()}
	if g.coin(2) {
		rd.ID = g.pick("id-1", "_x&y")
	}
	if g.coin(2) {
		t := g.instant()
		if t.Year() >= 1 && t.Year() <= 9999 {
			rd.ValidUntil = &t
		}
	}
	if g.coin(2) {
		rd.CacheDuration = g.duration()
	}
	if g.coin(3) {
		rd.ErrorURL = g.pick("https://e.example.com/error", "javascript:alert(1)")
	}
	if g.coin(3) {
		rd.Organization = g.organization()
	}
	if g.coin(3) {
		rd.ContactPeople = []saml.ContactPerson{g.contact()}
	}
	return rd
}

func (g gen) organization() *saml.Organization {
	o := &saml.Organization{OrganizationNames: []saml.LocalizedName{{Lang: "en", Value: g.pick(texts...)}}}
	if g.coin(2) {
		o.OrganizationDisplayNames = []saml.LocalizedName{{Lang: "de", Value: "Größe"}, {Lang: "", Value: "x"}}
	}
	if g.coin(2) {
		o.OrganizationURLs = []saml.LocalizedURI{{Lang: "en", Value: "https://org.example.com/?a=1&b=2"}}
	}
	return o
}

func (g gen) contact() saml.ContactPerson {
	cp := saml.ContactPerson{ContactType: g.pick("technical", "support", ""), GivenName: g.pick("Ada", ""), SurName: g.pick("L&L", "")}
	if g.coin(2) {
		cp.Company = "ACME <Corp>"
		cp.EmailAddresses = []string{"mailto:a@example.com", "b@example.com"}
		cp.TelephoneNumbers = []string{"+1 555 0100"}
	}
	return cp
}

func bptr(b bool) *bool { return &b }

func (g gen) descriptor(allowBad bool) *saml.EntityDescriptor {
	ed := &saml.EntityDescriptor{EntityID: g.pick(texts...), ValidUntil: g.instant(), CacheDuration: g.duration()}
	if g.coin(3) {
		ed.ID = "_id"
	}
	for i := 0; i < g.c.Rng.Intn(3); i++ {
		d := saml.IDPSSODescriptor{}
		d.RoleDescriptor = g.roleDescriptor()
		d.SingleLogoutServices, d.ManageNameIDServices = g.endpoints(allowBad), g.endpoints(allowBad)
		d.SingleSignOnServices, d.ArtifactResolutionServices = g.endpoints(allowBad), g.endpoints(allowBad)
		d.NameIDMappingServices, d.AssertionIDRequestServices = g.endpoints(allowBad), g.endpoints(allowBad)
		if g.coin(2) {
			d.NameIDFormats = []saml.NameIDFormat{saml.TransientNameIDFormat, "urn:x&y"}
		}
		if g.coin(2) {
			d.WantAuthnRequestsSigned = bptr(g.coin(2))
		}
		if g.coin(2) {
			d.AttributeProfiles = []string{"urn:profile:a"}
			d.Attributes = []saml.Attribute{{FriendlyName: "mail", Name: "urn:oid:0.9.2342.19200300.100.1.3", NameFormat: "urn:oasis:names:tc:SAML:2.0:attrname-format:uri",
				Values: []saml.AttributeValue{{Type: "xs:string", Value: "a&b"}}}}
		}
		ed.IDPSSODescriptors = append(ed.IDPSSODescriptors, d)
	}
	for i := 0; i < g.c.Rng.Intn(3); i++ {
		d := saml.SPSSODescriptor{}
		d.RoleDescriptor = g.roleDescriptor()
		d.ArtifactResolutionServices, d.AssertionConsumerServices = g.indexeds(allowBad), g.indexeds(allowBad)
		d.SingleLogoutServices, d.ManageNameIDServices = g.endpoints(allowBad), g.endpoints(allowBad)
		if g.coin(2) {
			d.AuthnRequestsSigned, d.WantAssertionsSigned = bptr(g.coin(2)), bptr(g.coin(2))
		}
		if g.coin(2) {
			d.NameIDFormats = []saml.NameIDFormat{saml.EmailAddressNameIDFormat}
		}
		if g.coin(3) {
			d.AttributeConsumingServices = []saml.AttributeConsumingService{{Index: 1, IsDefault: bptr(true), ServiceNames: []saml.LocalizedName{{Lang: "en", Value: "svc"}},
				RequestedAttributes: []saml.RequestedAttribute{{Attribute: saml.Attribute{Name: "uid", NameFormat: "basic"}, IsRequired: bptr(false)}}}}
		}
		ed.SPSSODescriptors = append(ed.SPSSODescriptors, d)
	}
	if g.coin(3) {
		ed.AuthnAuthorityDescriptors = []saml.AuthnAuthorityDescriptor{{RoleDescriptor: g.roleDescriptor(), AuthnQueryServices: g.endpoints(allowBad), AssertionIDRequestServices: g.endpoints(allowBad)}}
	}
	if g.coin(3) {
		ed.AttributeAuthorityDescriptors = []saml.AttributeAuthorityDescriptor{{RoleDescriptor: g.roleDescriptor(), AttributeServices: g.endpoints(allowBad), AssertionIDRequestServices: g.endpoints(allowBad),
			AttributeProfiles: []string{"p"}}}
	}
	if g.coin(3) {
		ed.PDPDescriptors = []saml.PDPDescriptor{{RoleDescriptor: g.roleDescriptor(), AuthzServices: g.endpoints(allowBad), AssertionIDRequestServices: g.endpoints(allowBad)}}
	}
	if g.coin(4) {
		ed.RoleDescriptors = []saml.RoleDescriptor{g.roleDescriptor()}
	}
	if g.coin(3) {
		ed.Organization = g.organization()
	}
	if g.coin(3) {
		cp := g.contact()
		ed.ContactPerson = &cp
	}
	if g.coin(3) {
		ed.AdditionalMetadataLocations = []string{"https://more.example.com/md", "x y"}
	}
	return ed
}

func mustURL(s string) url.URL {
	u, err := url.Parse(s)
	if err != nil {
		panic(err)
	}
	return *u
}

// C15Metadata is the metadata clause of C15.
func C15Metadata(c *core.Ctx) {
	g := gen{c}
	n := 0
	add := func(class string, m0 *saml.EntityDescriptor, wantEqual bool) {
		in := Project(m0)
		m1, xml1, problem := generation(m0)
		gen1, gen2 := "None", "None"
		obs := map[string]any{"xml": string(xml1)}
		if m1 != nil {
			gen1 = "(Some " + Project(m1) + ")"
			m2, xml2, p2 := generation(m1)
			obs["xml_second_generation"] = string(xml2)
			if p2 != "" {
				problem = p2
			}
			if m2 != nil {
				gen2 = "(Some " + Project(m2) + ")"
				xml3, _ := xml.Marshal(m2)
				if !bytes.Equal(xml2, xml3) || !reflect.DeepEqual(m1, m2) {
					problem = "the value obtained from one generation is not a fixed point of the next"
				}
			} else if problem == "" {
				problem = "the re-parsed value does not survive a second generation"
			}
			// everything except the validity instant and the endpoints is preserved exactly
			cp := *m0
			cp.IDPSSODescriptors = append([]saml.IDPSSODescriptor(nil), m0.IDPSSODescriptors...)
			cp.SPSSODescriptors = append([]saml.SPSSODescriptor(nil), m0.SPSSODescriptors...)
			cp.AuthnAuthorityDescriptors = append([]saml.AuthnAuthorityDescriptor(nil), m0.AuthnAuthorityDescriptors...)
			cp.AttributeAuthorityDescriptors = append([]saml.AttributeAuthorityDescriptor(nil), m0.AttributeAuthorityDescriptors...)
			cp.PDPDescriptors = append([]saml.PDPDescriptor(nil), m0.PDPDescriptors...)
			if !graft(&cp, m1) {
				problem = "role descriptors lost or added by the generation"
			} else if b0, err := xml.Marshal(&cp); err != nil || !bytes.Equal(b0, xml2) {
				problem = "a part of the descriptor other than validUntil rounding / endpoint filtering changed in the generation"
			}
			if wantEqual && in != Project(m1) {
				problem = "the generated metadata document does not re-parse to an equal value"
			}
			c.Count("metadata/generation/ok")
		} else {
			c.Count("metadata/generation/rejected")
		}
		var specOK *bool
		if problem != "" {
			specOK = core.Bptr(false)
			obs["problem"] = problem
		}
		grp := c.Group(fmt.Sprintf("mdgen%d", n/40), []string{"TimeModel", "DurationModel", "UrlEnc", "Metadata"}, "mgcase", "check_mgcases")
		n++
		c.Count("metadata/class/" + class)
		c.Add(grp, &core.Case{
			Key:        map[string]string{"op": "metadata_generation", "class": class},
			Input:      map[string]any{"descriptor": strings.ReplaceAll(in, "\n", " ")},
			Obs:        obs,
			Term:       fmt.Sprintf("{| mg_in := %s; mg_gen1 := %s; mg_gen2 := %s |}", in, gen1, gen2),
			ImplSpecOK: specOK,
		})
	}

	// hand-made corner cases
	for _, vu := range instants {
		for _, cd := range []time.Duration{0, 263669287, 48 * time.Hour} {
			add("scalars", &saml.EntityDescriptor{EntityID: "https://e.example.com/md", ValidUntil: vu, CacheDuration: cd}, false)
		}
	}
	for _, d := range durations {
		add("scalars", &saml.EntityDescriptor{EntityID: "e", ValidUntil: instants[2], CacheDuration: d}, false)
	}
	rl := "https://sp.example.com/acs-return"
	empty := ""
	js := "javascript:alert(1)"
	for _, b := range append(append([]string{}, stdBindings...), otherBindings...) {
		for _, loc := range append(append([]string{}, okLocs[:2]...), badLocs[:3]...) {
			add("endpoint", &saml.EntityDescriptor{EntityID: "e", IDPSSODescriptors: []saml.IDPSSODescriptor{{
				SingleSignOnServices: []saml.Endpoint{{Binding: b, Location: loc, ResponseLocation: "https://idp.example.com/other"}, {Binding: b, Location: "https://idp.example.com/sso", ResponseLocation: loc}},
				SSODescriptor:        saml.SSODescriptor{SingleLogoutServices: []saml.Endpoint{{Binding: b, Location: "https://idp.example.com/slo", ResponseLocation: "https://idp.example.com/slo-return"}}}}}}, false)
			add("indexed_endpoint", &saml.EntityDescriptor{EntityID: "e", SPSSODescriptors: []saml.SPSSODescriptor{{
				AssertionConsumerServices: []saml.IndexedEndpoint{{Binding: b, Location: loc, Index: 1, ResponseLocation: &rl}, {Binding: b, Location: "https://sp.example.com/acs", Index: 2, ResponseLocation: &empty},
					{Binding: b, Location: "https://sp.example.com/acs", Index: 3, ResponseLocation: &js}, {Binding: b, Location: "https://sp.example.com/acs2", Index: 4, IsDefault: bptr(true)}}}}}, false)
		}
	}
	// generated descriptors, every optional part present or absent
	ng := 120
	if c.Thorough() {
		ng = 1500
	}
	for i := 0; i < ng; i++ {
		add("generated", g.descriptor(i%3 == 0), false)
	}

	// by value / by pointer / nested, and EntitiesDescriptor groups
	containerCases(c, g)
	instantForms(c)

	// the documents the library generates
	oldNow := saml.TimeNow
	defer func() { saml.TimeNow = oldNow }()
	nows := []time.Time{time.Date(2024, 5, 6, 7, 8, 9, 0, time.UTC), time.Date(2024, 5, 6, 7, 8, 9, 123000000, time.UTC), time.Date(2024, 5, 6, 7, 8, 9, 123456789, time.UTC), time.Date(2024, 5, 6, 7, 8, 9, 999500000, time.UTC)}
	for ni, now := range nows {
		now := now
		saml.TimeNow = func() time.Time { return now }
		for v := 0; v < 9; v++ {
			sp := &saml.ServiceProvider{Key: fix.RSAKey("rsa_a"), Certificate: fix.Cert("rsa_a"), MetadataURL: mustURL("https://sp.example.com/saml/metadata"),
				AcsURL: mustURL("https://sp.example.com/saml/acs?x=1&y=2"), SloURL: mustURL("https://sp.example.com/saml/slo")}
			switch v {
			case 1:
				sp.EntityID = "urn:sp:entity&<>"
				sp.SignatureMethod = dsig.RSASHA256SignatureMethod
				sp.LogoutBindings = []string{saml.HTTPPostBinding, saml.HTTPRedirectBinding}
			case 2:
				sp.Certificate = nil
				sp.AuthnNameIDFormat = saml.EmailAddressNameIDFormat
				sp.MetadataValidDuration = 90*time.Minute + 1
			case 3:
				sp.Intermediates = []*x509.Certificate{fix.Cert("rsa_b")}
				sp.LogoutBindings = []string{saml.HTTPPostBinding}
				sp.MetadataValidDuration = time.Duration(1 + c.Rng.Int63n(int64(1000*time.Hour)))
			case 4:
				// ECDSA certificate (no encryption descriptor) with a chain of two intermediates
				sp.Key, sp.Certificate = fix.ECKey("ec_256"), fix.Cert("ec_256")
				sp.Intermediates = []*x509.Certificate{fix.Cert("rsa_b"), fix.Cert("rsa_c")}
				sp.SignatureMethod = dsig.ECDSASHA256SignatureMethod
				sp.AuthnNameIDFormat = saml.UnspecifiedNameIDFormat
			case 5:
				sp.LogoutBindings = []string{saml.SOAPBinding, saml.HTTPArtifactBinding}
				sp.AcsURL = mustURL("http://sp.example.com/acs#frag")
			case 6:
				// ECDSA certificate, no signing configured: no key descriptor at all
				sp.Key, sp.Certificate = fix.ECKey("ec_384"), fix.Cert("ec_384")
				sp.Intermediates = []*x509.Certificate{fix.Cert("rsa_b")}
			case 7:
				// RSA certificate with one intermediate, signing configured: two descriptors, two certificates each
				sp.Intermediates = []*x509.Certificate{fix.Cert("rsa_c")}
				sp.SignatureMethod = dsig.RSASHA1SignatureMethod
				sp.LogoutBindings = []string{saml.HTTPRedirectBinding}
			case 8:
				sp.Key, sp.Certificate = fix.ECKey("ec_521"), fix.Cert("ec_521")
				sp.Intermediates = []*x509.Certificate{fix.Cert("ec_256")}
				sp.SignatureMethod = dsig.ECDSASHA512SignatureMethod
			}
			md := sp.Metadata()
			// "re-parses to an equal value" is exact when the validity instant falls on a millisecond
			add(fmt.Sprintf("sp_metadata/now%d", ni), md, md.ValidUntil.Nanosecond()%1000000 == 0)
		}
		for v := 0; v < 4; v++ {
			idp := &saml.IdentityProvider{Key: fix.RSAKey("rsa_a"), Certificate: fix.Cert("rsa_a"), MetadataURL: mustURL("https://idp.example.com/metadata"), SSOURL: mustURL("https://idp.example.com/sso")}
			switch v {
			case 1:
				idp.LogoutURL = mustURL("https://idp.example.com/logout?x=1")
			case 2:
				d := 36*time.Hour + 5
				idp.ValidDuration = &d
				idp.SSOURL = mustURL("http://idp.example.com/sso?tenant=a%20b")
			case 3:
				d := time.Duration(1 + c.Rng.Int63n(int64(100*time.Hour)))
				idp.ValidDuration = &d
				idp.Key, idp.Certificate = fix.ECKey("ec_384"), fix.Cert("ec_384")
				idp.LogoutURL = mustURL("https://idp.example.com/logout")
			}
			md := idp.Metadata()
			add(fmt.Sprintf("idp_metadata/now%d", ni), md, md.ValidUntil.Nanosecond()%1000000 == 0)
		}
	}
}
