package mdcases

import (
	"bytes"
	"encoding/xml"
	"fmt"
	"time"

	"github.com/crewjam/saml"

	"verifharness/internal/core"
	"verifharness/internal/emit"
)

// Every metadata type must encode the same way whether it is handed to encoding/xml by value
// or by pointer, at top level, as a slice element and as a (non-addressable) struct field; and
// an EntitiesDescriptor must round-trip its own validUntil / cacheDuration and its members.

type wrapValue struct {
	XMLName xml.Name `xml:"Wrapper"`
	Entity  saml.EntityDescriptor
}
type wrapPointer struct {
	XMLName xml.Name `xml:"Wrapper"`
	Entity  *saml.EntityDescriptor
}
type wrapGroupValue struct {
	XMLName xml.Name `xml:"Wrapper"`
	Group   saml.EntitiesDescriptor
}
type wrapGroupPointer struct {
	XMLName xml.Name `xml:"Wrapper"`
	Group   *saml.EntitiesDescriptor
}

func marshalOK(v any) ([]byte, string) {
	var b []byte
	var err error
	func() {
		defer func() {
			if r := recover(); r != nil {
				err = fmt.Errorf("panic: %v", r)
			}
		}()
		b, err = xml.Marshal(v)
	}()
	if err != nil {
		return nil, err.Error()
	}
	return b, ""
}

func optInstant(t *time.Time) string {
	if t == nil {
		return "None"
	}
	return "(Some " + instantZ(*t) + ")"
}

func optDur(d *time.Duration) string {
	if d == nil {
		return "None"
	}
	return "(Some " + emit.Z(int64(*d)) + ")"
}

// survivor generates a descriptor that re-parses (every endpoint passes the location check).
func survivor(g gen) *saml.EntityDescriptor {
	for {
		m := g.descriptor(false)
		if m1, _, p := generation(m); m1 != nil && p == "" {
			return m
		}
	}
}

func containerCases(c *core.Ctx, g gen) {
	grp := c.Group("mdgroups", []string{"TimeModel", "DurationModel", "UrlEnc", "Metadata"}, "egcase", "check_egcases")
	n := 40
	if c.Thorough() {
		n = 400
	}
	var vus []*time.Time
	for i := range instants {
		t := instants[i]
		if t.Year() >= 1 && t.Year() <= 9999 {
			vus = append(vus, &t)
		}
	}
	vus = append(vus, nil)
	var cds []*time.Duration
	for i := range durations {
		d := durations[i]
		if d != 0 {
			cds = append(cds, &d)
		}
	}
	cds = append(cds, nil)
	for i := 0; i < n+len(vus)+len(cds); i++ {
		vu, cd := vus[i%len(vus)], cds[(i*5+i/len(vus))%len(cds)]
		if i >= len(vus)+len(cds) {
			if g.coin(3) {
				t := g.instant()
				vu = &t
			}
			if g.coin(3) {
				d := g.duration()
				if d != 0 {
					cd = &d
				}
			}
		}
		// members: acceptable descriptors (so that the group re-parses), one of them with sub-millisecond validUntil
		nm := 1 + c.Rng.Intn(3)
		var members []saml.EntityDescriptor
		for k := 0; k < nm; k++ {
			members = append(members, *survivor(g))
		}
		grpVal := saml.EntitiesDescriptor{ValidUntil: vu, CacheDuration: cd, EntityDescriptors: members}
		if g.coin(2) {
			id, name := "_group", "fed & <eration>"
			grpVal.ID, grpVal.Name = &id, &name
		}
		if g.coin(2) {
			d2 := 90 * time.Minute
			t2 := time.Date(2031, 1, 2, 3, 4, 5, 678901234, time.UTC)
			grpVal.EntitiesDescriptors = []saml.EntitiesDescriptor{{ValidUntil: &t2, CacheDuration: &d2, EntityDescriptors: []saml.EntityDescriptor{*survivor(g)}}}
		}
		problem := ""
		note := func(s string) {
			if problem == "" {
				problem = s
			}
		}
		// 1. by value and by pointer, top level
		bv, e1 := marshalOK(grpVal)
		bp, e2 := marshalOK(&grpVal)
		same := e1 == "" && e2 == "" && bytes.Equal(bv, bp)
		if !same {
			note("EntitiesDescriptor encodes differently by value and by pointer: " + e1 + e2)
		}
		// 2. as a struct field, by value and by pointer
		fv, e3 := marshalOK(wrapGroupValue{Group: grpVal})
		fp, e4 := marshalOK(wrapGroupPointer{Group: &grpVal})
		if e3 != "" || e4 != "" || !bytes.Equal(fv, fp) {
			same = false
			note("EntitiesDescriptor as a struct field encodes differently by value and by pointer: " + e3 + e4)
		}
		// 3. every member: value / pointer / struct field / slice element give the same element text
		for k := range members {
			mv, e5 := marshalOK(members[k])
			mp, e6 := marshalOK(&members[k])
			wv, e7 := marshalOK(wrapValue{Entity: members[k]})
			wp, e8 := marshalOK(wrapPointer{Entity: &members[k]})
			if e5 != "" || e6 != "" || e7 != "" || e8 != "" || !bytes.Equal(mv, mp) || !bytes.Equal(wv, wp) || !bytes.Contains(wv, mv) || (e1 == "" && !bytes.Contains(bv, mv)) {
				same = false
				note("an EntityDescriptor encodes differently by value / by pointer / as a field / as a slice element: " + e5 + e6 + e7 + e8)
			}
		}
		// 4. re-parse the by-value encoding
		var back saml.EntitiesDescriptor
		ok := e1 == "" && func() (ok bool) {
			defer func() {
				if recover() != nil {
					ok = false
				}
			}()
			return xml.Unmarshal(bv, &back) == nil
		}()
		membersOK := ok && len(back.EntityDescriptors) == len(members) && len(back.EntitiesDescriptors) == len(grpVal.EntitiesDescriptors)
		if ok {
			for k := range members {
				if !membersOK {
					break
				}
				m1, _, p := generation(&members[k])
				if p != "" || m1 == nil || Project(m1) != Project(&back.EntityDescriptors[k]) {
					membersOK = false
				}
			}
			if membersOK && len(grpVal.EntitiesDescriptors) == 1 {
				in, out := grpVal.EntitiesDescriptors[0], back.EntitiesDescriptors[0]
				if out.ValidUntil == nil || !out.ValidUntil.Equal(in.ValidUntil.Round(time.Millisecond)) || out.CacheDuration == nil || *out.CacheDuration != *in.CacheDuration || len(out.EntityDescriptors) != 1 {
					membersOK = false
				}
			}
			// second generation is a fixed point
			b2, _ := marshalOK(back)
			var back2 saml.EntitiesDescriptor
			if xml.Unmarshal(b2, &back2) != nil {
				membersOK = false
			} else if b3, _ := marshalOK(&back2); !bytes.Equal(b2, b3) {
				membersOK = false
			}
			if (grpVal.ID == nil) != (back.ID == nil) || (grpVal.Name != nil && (back.Name == nil || *back.Name != *grpVal.Name)) {
				membersOK = false
			}
			if !membersOK {
				note("a member or nested group of the EntitiesDescriptor did not come back as its own generation")
			}
		} else {
			note("the by-value encoding of the EntitiesDescriptor does not re-parse")
		}
		var specOK *bool
		obs := map[string]any{"xml_by_value": string(bv), "reparsed": ok}
		if problem != "" {
			specOK = core.Bptr(false)
			obs["problem"] = problem
			obs["xml_by_pointer"] = string(bp)
		}
		var vuOut *time.Time
		var cdOut *time.Duration
		if ok {
			vuOut, cdOut = back.ValidUntil, back.CacheDuration
		}
		c.Count(fmt.Sprintf("mdgroups/valid_until_set/%v", vu != nil))
		c.Count(fmt.Sprintf("mdgroups/cache_duration_set/%v", cd != nil))
		c.Count(fmt.Sprintf("mdgroups/members/%d", nm))
		c.Add(grp, &core.Case{
			Key:   map[string]string{"op": "entities_descriptor_roundtrip"},
			Input: map[string]any{"validUntil": vu, "cacheDuration": cd, "members": nm, "nested_groups": len(grpVal.EntitiesDescriptors)},
			Obs:   obs,
			Term: fmt.Sprintf("{| eg_valid_until := %s; eg_cache := %s; eg_ok := %s; eg_valid_until_out := %s; eg_cache_out := %s; eg_same_bytes := %s; eg_members_ok := %s |}",
				optInstant(vu), optDur(cd), emit.Bool(ok), optInstant(vuOut), optDur(cdOut), emit.Bool(same), emit.Bool(membersOK)),
			ImplSpecOK: specOK,
			Dedup:      fmt.Sprintf("%d", i),
		})
	}
}
