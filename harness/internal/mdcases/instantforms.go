package mdcases

import (
	"encoding/xml"
	"fmt"
	"strings"
	"time"

	"github.com/crewjam/saml"

	"verifharness/internal/core"
	"verifharness/internal/emit"
)

// instantForms: the documented lexical forms of an instant - RFC 3339 with or without a zone
// designator, with 0..9 fractional digits - written from known components, parsed by
// RelaxedTime.UnmarshalText directly and as the validUntil attribute of a metadata document.
// The expected instant is computed from the components (not by parsing), rounded to the millisecond.
func instantForms(c *core.Ctx) {
	g := c.Group("instantforms", []string{"TimeModel"}, "pcase", "check_pcases")
	type zone struct {
		text string
		loc  *time.Location
	}
	zones := []zone{{"", time.UTC}, {"Z", time.UTC}, {"+05:30", time.FixedZone("", 5*3600+1800)}, {"-08:00", time.FixedZone("", -8*3600)}, {"+00:00", time.UTC}}
	bases := [][6]int{{2015, 12, 1, 1, 57, 9}, {2024, 2, 29, 23, 59, 59}, {1999, 12, 31, 23, 59, 59}, {2038, 1, 19, 3, 14, 7}}
	fracs := []string{"123456789", "999999999", "000000000", "500000000", "499999999", "999500000", "000499999", "907060504"}
	for bi, b := range bases {
		for _, z := range zones {
			for nd := 0; nd <= 9; nd++ {
				for fi, f := range fracs {
					if nd == 0 && fi > 0 {
						continue
					}
					if !c.Thorough() && (bi+fi+nd)%2 == 1 && z.text != "" {
						continue
					}
					digits := f[:nd]
					ns := 0
					if nd > 0 {
						fmt.Sscanf((digits + "000000000")[:9], "%d", &ns)
					}
					text := fmt.Sprintf("%04d-%02d-%02dT%02d:%02d:%02d", b[0], b[1], b[2], b[3], b[4], b[5])
					if nd > 0 {
						text += "." + digits
					}
					text += z.text
					want := time.Date(b[0], time.Month(b[1]), b[2], b[3], b[4], b[5], ns, z.loc).Round(time.Millisecond)
					// direct
					var rt saml.RelaxedTime
					err := func() (err error) {
						defer func() {
							if r := recover(); r != nil {
								err = fmt.Errorf("panic: %v", r)
							}
						}()
						return rt.UnmarshalText([]byte(text))
					}()
					problem := ""
					res := "None"
					var got any
					if err != nil {
						problem = "a documented lexical form is rejected: " + err.Error()
					} else {
						t := time.Time(rt)
						res = "(Some " + instantZ(t) + ")"
						got = t.UTC().Format(time.RFC3339Nano)
						if !t.Equal(want) {
							problem = "parsed to a different instant than the one written"
						}
					}
					// as the validUntil attribute of a metadata document
					doc := `<EntityDescriptor xmlns="urn:oasis:names:tc:SAML:2.0:metadata" entityID="e" validUntil="` + text + `"></EntityDescriptor>`
					var ed saml.EntityDescriptor
					if e2 := xml.Unmarshal([]byte(doc), &ed); e2 != nil {
						if problem == "" {
							problem = "a metadata document with this validUntil does not parse: " + e2.Error()
						}
					} else if !ed.ValidUntil.Equal(want) && problem == "" {
						problem = "validUntil of the metadata document is a different instant"
					}
					var specOK *bool
					obs := map[string]any{"result": got, "expected": want.UTC().Format(time.RFC3339Nano)}
					if problem != "" {
						specOK = core.Bptr(false)
						obs["problem"] = problem
					}
					zc := z.text
					if zc == "" {
						zc = "none"
					}
					c.Count("instantforms/zone/" + zc)
					c.Count(fmt.Sprintf("instantforms/fraction_digits/%d", nd))
					c.Add(g, &core.Case{
						Key:        map[string]string{"op": "instant_lexical_form", "zone": zc, "fraction_digits": fmt.Sprint(nd)},
						Input:      map[string]any{"text": text},
						Obs:        obs,
						Term:       fmt.Sprintf("{| pc_text := %s; pc_res := %s |}", emit.Str(text), res),
						ImplSpecOK: specOK,
						Dedup:      strings.ToLower(text),
					})
				}
			}
		}
	}
}
