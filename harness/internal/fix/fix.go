// Package fix holds committed fixture keys and certificates (valid 1970..9999).
package fix

import (
	"crypto/ecdsa"
	"crypto/rsa"
	"crypto/x509"
	"embed"
	"encoding/base64"
	"encoding/pem"
)

//go:embed data/*
var data embed.FS

func der(name string) []byte {
	b, err := data.ReadFile("data/" + name)
	if err != nil {
		panic(err)
	}
	blk, _ := pem.Decode(b)
	if blk == nil {
		panic("bad pem " + name)
	}
	return blk.Bytes
}

// RSAKey returns the named RSA private key (rsa_a, rsa_b, rsa_c, rsa_1024, rsa_3072, rsa_4096).
func RSAKey(name string) *rsa.PrivateKey {
	k, err := x509.ParsePKCS1PrivateKey(der(name + ".key"))
	if err != nil {
		panic(err)
	}
	return k
}

// ECKey returns the named ECDSA private key (ec_256, ec_384, ec_521).
func ECKey(name string) *ecdsa.PrivateKey {
	k, err := x509.ParseECPrivateKey(der(name + ".key"))
	if err != nil {
		panic(err)
	}
	return k
}

// Cert returns the named certificate.
func Cert(name string) *x509.Certificate {
	c, err := x509.ParseCertificate(der(name + ".crt"))
	if err != nil {
		panic(err)
	}
	return c
}

// CertB64 returns the base64 DER of the named certificate (as in X509Certificate elements).
func CertB64(name string) string {
	return base64.StdEncoding.EncodeToString(der(name + ".crt"))
}
