module verifharness

go 1.22

require (
	github.com/beevik/etree v1.5.0
	github.com/crewjam/saml v0.0.0
	github.com/golang-jwt/jwt/v4 v4.5.2
	github.com/russellhaering/goxmldsig v1.4.0
	golang.org/x/crypto v0.33.0
	golang.org/x/net v0.34.0
)

require (
	github.com/jonboulle/clockwork v0.2.2 // indirect
	github.com/mattermost/xml-roundtrip-validator v0.1.0 // indirect
)

replace github.com/crewjam/saml => /repo
